// listx.cpp - engine E6 (C18): explicit-state search over static_list
// operations and over the lifetimes of real registration objects.
//
//  part A: detail::static_list<Node> directly, pool of N nodes.
//          BFS over all reachable list states applying EVERY operation in EVERY
//          state (push_back of each unlinked node, remove of each linked node,
//          clear), plus every operation sequence of length <= L run end-to-end.
//  part B: the same through class_declaration constructors / destructors,
//          method<> objects joining Policy::methods, definition_info
//          destructors leaving method.specs, add_function idempotence.
//
// Oracle: a std::vector model. After every operation: forward iteration with
// iterator and const_iterator, size(), empty(), and every node's link fields.
#include <yorel/yomm2/core.hpp>

#include <cstdio>
#include <cstring>
#include <map>
#include <new>
#include <set>
#include <string>
#include <vector>
#include <deque>
#include <sys/mman.h>
#include <sys/wait.h>
#include <unistd.h>

using namespace yorel::yomm2;
namespace d = yorel::yomm2::detail;

static long g_transitions = 0, g_sequences = 0, g_checks = 0;
static std::vector<std::string> g_viol;
static std::string g_current;
static char* g_shared_current; // survives a crash of the exploring child

static void set_current(const std::string& s) {
    g_current = s;
    if (g_shared_current) {
        strncpy(g_shared_current, s.c_str(), 1000);
        g_shared_current[1000] = 0;
    }
}

static bool g_print_now = false;
static void violation(const std::string& what) {
    if (g_viol.size() < 50) {
        g_viol.push_back(g_current + "\t" + what);
        if (g_print_now) { // exploring child: survive a later crash
            printf("CAND\t%s\n", g_viol.back().c_str());
            fflush(stdout);
        }
    }
}

// ---------------------------------------------------------------------------
// part A

struct Node : d::static_list<Node>::static_link {
    int id;
    Node* prev_() {
        return prev_ptr;
    }
    Node* next_() {
        return next_ptr;
    }
};
struct List : d::static_list<Node> {
    Node* first_() {
        return first;
    }
};

constexpr int MAXN = 6;
alignas(16) static unsigned char g_node_mem[MAXN][sizeof(Node)];
alignas(16) static unsigned char g_list_mem[sizeof(List)];

struct A {
    int n;
    List* list;
    Node* node[MAXN];
    std::vector<int> model;

    void fresh(int n_) {
        n = n_;
        memset(g_node_mem, 0, sizeof g_node_mem);
        memset(g_list_mem, 0, sizeof g_list_mem);
        list = reinterpret_cast<List*>(g_list_mem); // zero-initialised static
        for (int i = 0; i < n; ++i) {
            node[i] = reinterpret_cast<Node*>(g_node_mem[i]);
            node[i]->id = i;
        }
        model.clear();
    }
    bool linked(int i) const {
        for (int x : model)
            if (x == i)
                return true;
        return false;
    }
    // op encoding: 'a'+i push i, 'A'+i remove i, '!' clear
    bool enabled(char op) const {
        if (op == '!')
            return true;
        if (op >= 'a' && op < 'a' + n)
            return !linked(op - 'a');
        if (op >= 'A' && op < 'A' + n)
            return linked(op - 'A');
        return false;
    }
    void apply(char op) {
        ++g_transitions;
        if (op == '!') {
            list->clear();
            model.clear();
        } else if (op >= 'a') {
            list->push_back(*node[op - 'a']);
            model.push_back(op - 'a');
        } else {
            list->remove(*node[op - 'A']);
            for (size_t k = 0; k < model.size(); ++k)
                if (model[k] == op - 'A') {
                    model.erase(model.begin() + k);
                    break;
                }
        }
    }
    std::string state() const {
        std::string s;
        for (int x : model)
            s += char('0' + x);
        return s;
    }
    void check() {
        ++g_checks;
        // iteration (bounded: a corrupted list may be cyclic)
        std::vector<int> seen;
        int guard = 0;
        for (auto it = list->begin(); it != list->end() && guard < 4 * MAXN;
             ++it, ++guard)
            seen.push_back(it->id);
        if (seen != model)
            violation("iterator enumerates " + join(seen) + " expected " + join(model));
        std::vector<int> cseen;
        const List& cl = *list;
        guard = 0;
        for (auto it = cl.begin(); it != cl.end() && guard < 4 * MAXN; ++it, ++guard)
            cseen.push_back(it->id);
        if (cseen != model)
            violation("const_iterator enumerates " + join(cseen) + " expected " + join(model));
        // the other enumeration forms: post-increment (the value returned is
        // the position before the step), range-for, operator->
        if (seen == model && cseen == model) {
            std::vector<int> p1, p2, p3;
            guard = 0;
            for (auto it = list->begin(); it != list->end() && guard < 4 * MAXN; ++guard) {
                auto was = it++;
                p1.push_back((*was).id);
            }
            guard = 0;
            for (auto it = cl.begin(); it != cl.end() && guard < 4 * MAXN; ++guard) {
                auto was = it++;
                p2.push_back(was->id);
            }
            for (auto& x : cl)
                p3.push_back(x.id);
            if (p1 != model)
                violation("iterator post-increment enumerates " + join(p1) + " expected " + join(model));
            if (p2 != model)
                violation("const_iterator post-increment enumerates " + join(p2) + " expected " + join(model));
            if (p3 != model)
                violation("range-for over a const list enumerates " + join(p3) + " expected " + join(model));
        }
        if (seen == model) { // size() walks the list: only safe if sane
            if (list->size() != model.size())
                violation("size() = " + std::to_string(list->size()) + " expected " +
                          std::to_string(model.size()));
        }
        if (list->empty() != model.empty())
            violation(std::string("empty() = ") + (list->empty() ? "true" : "false"));
        // link fields
        for (int i = 0; i < n; ++i) {
            Node* want_prev = nullptr;
            Node* want_next = nullptr;
            for (size_t k = 0; k < model.size(); ++k)
                if (model[k] == i) {
                    want_prev = node[k == 0 ? model.back() : model[k - 1]];
                    want_next = k + 1 < model.size() ? node[model[k + 1]] : nullptr;
                }
            if (node[i]->prev_() != want_prev || node[i]->next_() != want_next)
                violation("links of node " + std::to_string(i) + " are (" +
                          name(node[i]->prev_()) + "," + name(node[i]->next_()) +
                          ") expected (" + name(want_prev) + "," + name(want_next) + ")");
        }
        Node* want_first = model.empty() ? nullptr : node[model[0]];
        if (list->first_() != want_first)
            violation("first is " + name(list->first_()) + " expected " + name(want_first));
    }
    std::string name(Node* p) const {
        if (!p)
            return "null";
        for (int i = 0; i < n; ++i)
            if (p == node[i])
                return std::to_string(i);
        return "?";
    }
    static std::string join(const std::vector<int>& v) {
        std::string s = "[";
        for (size_t i = 0; i < v.size(); ++i)
            s += (i ? " " : "") + std::to_string(v[i]);
        return s + "]";
    }
    std::string ops() const {
        std::string s = "!";
        for (int i = 0; i < n; ++i) {
            s += char('a' + i);
            s += char('A' + i);
        }
        return s;
    }
};

// replays `seq` on a fresh list, checking after every step
static void run_sequence_A(int n, const std::string& seq, bool check_each) {
    A a;
    a.fresh(n);
    set_current("A n=" + std::to_string(n) + " ops=" + seq);
    ++g_sequences;
    for (char op : seq) {
        if (!a.enabled(op))
            return;
        a.apply(op);
        if (check_each)
            a.check();
    }
    if (!check_each)
        a.check();
}

static long bfs_A(int n, std::vector<std::string>& samples) {
    // state = op history reaching it (fresh object + replay); canonical form
    // = the model sequence AND the real link fields (checked equal to the
    // model's, so the model sequence alone is a sound key)
    std::set<std::string> seen;
    std::deque<std::string> frontier;
    seen.insert("");
    frontier.push_back("");
    std::map<std::string, std::string> reached_by; // state -> first history
    A probe;
    while (!frontier.empty()) {
        std::string hist = frontier.front();
        frontier.pop_front();
        probe.fresh(n);
        for (char op : hist)
            probe.apply(op);
        std::string ops = probe.ops();
        for (char op : ops) {
            A a;
            a.fresh(n);
            set_current("A n=" + std::to_string(n) + " ops=" + hist + op);
            for (char h : hist)
                a.apply(h);
            if (!a.enabled(op))
                continue;
            a.apply(op);
            a.check();
            std::string st = a.state();
            if (!seen.count(st)) {
                seen.insert(st);
                frontier.push_back(hist + op);
                if (samples.size() < 4 && st.size() >= 3)
                    samples.push_back(g_current + " -> state " + st);
            }
        }
    }
    return (long)seen.size();
}

static void all_sequences_A(int n, int maxlen) {
    A a;
    a.fresh(n);
    std::string ops = a.ops();
    std::string seq;
    // DFS over sequences, pruning disabled ops; checks after every step are
    // done once per sequence prefix (each prefix is itself a sequence)
    struct Rec {
        static void go(int n, const std::string& ops, std::string& seq, int maxlen) {
            if (!seq.empty())
                run_sequence_A(n, seq, false);
            if ((int)seq.size() == maxlen)
                return;
            for (char op : ops) {
                // enabledness depends on the model only
                A t;
                t.fresh(n);
                bool ok = true;
                for (char c : seq)
                    t.apply(c);
                if (!t.enabled(op))
                    ok = false;
                if (!ok)
                    continue;
                seq.push_back(op);
                go(n, ops, seq, maxlen);
                seq.pop_back();
            }
        }
    };
    Rec::go(n, ops, seq, maxlen);
}

// ---------------------------------------------------------------------------
// part B: real registration objects

struct PB : policy::release::rebind<PB> {};
struct KA {
    virtual ~KA() {
    }
};
struct KB : KA {};
struct KC : KB {};
using DeclA = class_declaration<KA, PB>;
using DeclB = class_declaration<KB, KA, PB>;
using DeclC = class_declaration<KC, KB, KA, PB>;
struct key0;
struct key1;
using M0 = method<key0, int(virtual_<KA&>), PB>;
using M1 = method<key1, int(virtual_<KA&>, virtual_<KA&>), PB>;

static int f0(KA&) {
    return 0;
}

// objects: 0..2 class declarations, 3..4 extra method objects, 5..7 definition
// records (5,6 on method 3; 7 on method 4)
constexpr int NOBJ = 8;
alignas(16) static unsigned char g_obj_mem[NOBJ][256];
static_assert(sizeof(M1) <= 256 && sizeof(DeclC) <= 256);

struct B {
    bool alive[NOBJ];
    std::vector<int> classes, methods, specs[2];

    void fresh() {
        memset(g_obj_mem, 0, sizeof g_obj_mem);
        memset(alive, 0, sizeof alive);
        classes.clear();
        methods.clear();
        specs[0].clear();
        specs[1].clear();
        PB::classes.clear();
        PB::methods.clear();
    }
    d::method_info* meth(int i) {
        return i == 3 ? static_cast<d::method_info*>(reinterpret_cast<M0*>(g_obj_mem[3]))
                      : static_cast<d::method_info*>(reinterpret_cast<M1*>(g_obj_mem[4]));
    }
    int owner(int defobj) {
        return defobj == 7 ? 4 : 3;
    }
    bool enabled(int obj) {
        if (obj >= 5 && !alive[obj])
            return alive[owner(obj)]; // a definition needs its method
        if ((obj == 3 || obj == 4) && alive[obj]) {
            // a method is only destroyed after its definitions
            for (int dd = 5; dd < 8; ++dd)
                if (alive[dd] && owner(dd) == obj)
                    return false;
        }
        return true;
    }
    void toggle(int obj) {
        ++g_transitions;
        void* mem = g_obj_mem[obj];
        if (!alive[obj]) {
            memset(mem, 0, sizeof g_obj_mem[obj]); // static storage is zeroed
            switch (obj) {
            case 0:
                new (mem) DeclA();
                break;
            case 1:
                new (mem) DeclB();
                break;
            case 2:
                new (mem) DeclC();
                break;
            case 3:
                new (mem) M0();
                break;
            case 4:
                new (mem) M1();
                break;
            default: {
                auto di = new (mem) d::definition_info();
                di->method = meth(owner(obj));
                di->pf = (void*)f0;
                di->method->specs.push_back(*di);
            }
            }
            alive[obj] = true;
            (obj < 3 ? classes : obj < 5 ? methods : specs[owner(obj) - 3]).push_back(obj);
        } else {
            switch (obj) {
            case 0:
                reinterpret_cast<DeclA*>(mem)->~DeclA();
                break;
            case 1:
                reinterpret_cast<DeclB*>(mem)->~DeclB();
                break;
            case 2:
                reinterpret_cast<DeclC*>(mem)->~DeclC();
                break;
            case 3:
                reinterpret_cast<M0*>(mem)->~M0();
                break;
            case 4:
                reinterpret_cast<M1*>(mem)->~M1();
                break;
            default:
                reinterpret_cast<d::definition_info*>(mem)->~definition_info();
            }
            alive[obj] = false;
            auto& v = obj < 3 ? classes : obj < 5 ? methods : specs[owner(obj) - 3];
            for (size_t k = 0; k < v.size(); ++k)
                if (v[k] == obj) {
                    v.erase(v.begin() + k);
                    break;
                }
        }
    }
    template<class L>
    void compare(L& list, const std::vector<int>& model, const char* what) {
        ++g_checks;
        std::vector<int> seen;
        int guard = 0;
        for (auto it = list.begin(); it != list.end() && guard < 4 * NOBJ; ++it, ++guard) {
            int id = -1;
            for (int o = 0; o < NOBJ; ++o)
                if ((void*)&*it >= (void*)g_obj_mem[o] &&
                    (void*)&*it < (void*)(g_obj_mem[o] + 256))
                    id = o;
            seen.push_back(id);
        }
        if (seen != model) {
            violation(std::string(what) + " enumerates " + A::join(seen) + " expected " +
                      A::join(model));
            return;
        }
        if (list.size() != model.size())
            violation(std::string(what) + " size() = " + std::to_string(list.size()));
        if (list.empty() != model.empty())
            violation(std::string(what) + " empty() wrong");
    }
    void check() {
        compare(PB::classes, classes, "class catalog");
        compare(PB::methods, methods, "method catalog");
        if (alive[3])
            compare(meth(3)->specs, specs[0], "definitions of method 3");
        if (alive[4])
            compare(meth(4)->specs, specs[1], "definitions of method 4");
    }
    std::string state() {
        std::string s;
        for (int x : classes)
            s += char('0' + x);
        s += "|";
        for (int x : methods)
            s += char('0' + x);
        s += "|";
        for (int x : specs[0])
            s += char('0' + x);
        s += "|";
        for (int x : specs[1])
            s += char('0' + x);
        return s;
    }
};

static void replay_B(const std::string& seq, bool check_each) {
    B b;
    b.fresh();
    set_current("B ops=" + seq);
    ++g_sequences;
    for (char c : seq) {
        int obj = c - '0';
        if (!b.enabled(obj))
            return;
        b.toggle(obj);
        if (check_each)
            b.check();
    }
    if (!check_each)
        b.check();
    // leave nothing linked (objects are about to be zeroed)
    b.fresh();
}

static long bfs_B(std::vector<std::string>& samples, int maxdepth) {
    std::set<std::string> seen;
    std::deque<std::string> frontier;
    seen.insert("|||");
    frontier.push_back("");
    while (!frontier.empty()) {
        std::string hist = frontier.front();
        frontier.pop_front();
        if ((int)hist.size() >= maxdepth)
            continue;
        for (int obj = 0; obj < NOBJ; ++obj) {
            B b;
            b.fresh();
            set_current("B ops=" + hist + char('0' + obj));
            bool ok = true;
            for (char c : hist)
                b.toggle(c - '0');
            if (!b.enabled(obj))
                continue;
            b.toggle(obj);
            b.check();
            std::string st = b.state();
            if (!seen.count(st)) {
                seen.insert(st);
                frontier.push_back(hist + char('0' + obj));
                if (samples.size() < 8 && hist.size() >= 4 && obj >= 5)
                    samples.push_back(g_current + " -> " + st);
            }
            b.fresh();
            (void)ok;
        }
    }
    return (long)seen.size();
}

static void all_sequences_B(int maxlen) {
    std::string seq;
    struct Rec {
        static void go(std::string& seq, int maxlen) {
            if (!seq.empty())
                replay_B(seq, false);
            if ((int)seq.size() == maxlen)
                return;
            for (int obj = 0; obj < NOBJ; ++obj) {
                B t;
                t.fresh();
                for (char c : seq)
                    t.toggle(c - '0');
                bool en = t.enabled(obj);
                t.fresh();
                if (!en)
                    continue;
                seq.push_back(char('0' + obj));
                go(seq, maxlen);
                seq.pop_back();
            }
        }
    };
    Rec::go(seq, maxlen);
}

// add_function registers its definition once, however often it is constructed
static void check_add_function() {
    set_current("B add_function twice");
    PB::methods.clear();
    static bool first = true;
    auto before = M0::fn.specs.size();
    {
        M0::add_function<f0> a1;
        M0::add_function<f0> a2;
        ++g_transitions;
        ++g_transitions;
    }
    M0::add_function<f0> a3;
    ++g_transitions;
    ++g_checks;
    auto after = M0::fn.specs.size();
    if (after != (first ? before + 1 : before))
        violation("add_function constructed three times registered " +
                  std::to_string(after - before) + " definitions");
    first = false;
}

// "or clearing": the method catalog is cleared while methods and their
// definitions are alive; a definition destroyed afterwards still leaves its
// method's catalog, and the remaining ones are enumerated as before
static void check_clear_then_destroy() {
    set_current("B catalog cleared");
    for (int first_gone : {5, 6}) {
        B b;
        b.fresh();
        b.toggle(3);
        b.toggle(4);
        b.toggle(5);
        b.toggle(6);
        b.toggle(7);
        b.check();
        PB::methods.clear();
        ++g_transitions;
        b.methods.clear();
        b.check();
        b.toggle(first_gone); // destroys a definition record of method 3
        b.check();
        b.toggle(7);
        b.check();
        b.toggle(first_gone == 5 ? 6 : 5);
        b.check();
        // a definition can be registered again on the unlisted method
        b.toggle(5);
        b.check();
        b.toggle(5);
        b.check();
    }
}

// one function may be the definition of several methods: each method's catalog
// holds its own live record for it
struct key0b;
struct key0c;
using M0b = method<key0b, int(virtual_<KA&>), PB>;
using M0c = method<key0c, int(virtual_<KA&>), PB>;
static int fshared(KA&) {
    return 7;
}
template<class M>
static void expect_one_shared(const char* which, size_t before) {
    ++g_checks;
    size_t n = 0, mine = 0;
    for (auto& spec : M::fn.specs) {
        ++n;
        if (spec.method == &M::fn && spec.pf)
            ++mine;
    }
    if (n != before + 1 || mine != before + 1 || M::fn.specs.size() != before + 1 ||
        M::fn.specs.empty())
        violation(std::string("function shared by several methods: catalog of ") + which +
                  " enumerates " + std::to_string(n) + " definitions (" + std::to_string(mine) +
                  " its own), size() " + std::to_string(M::fn.specs.size()) + ", expected " +
                  std::to_string(before + 1));
}
static void check_shared_function() {
    set_current("B shared function");
    static bool first = true;
    if (!first)
        return; // the records are function-local statics: registered for good
    first = false;
    size_t b0 = M0::fn.specs.size(), bb = M0b::fn.specs.size(), bc = M0c::fn.specs.size();
    M0b::add_function<fshared> r1;
    ++g_transitions;
    expect_one_shared<M0b>("the first method", bb);
    M0::add_function<fshared> r2;
    ++g_transitions;
    expect_one_shared<M0>("the second method", b0);
    expect_one_shared<M0b>("the first method (after the second registration)", bb);
    M0c::add_function<fshared> r3;
    ++g_transitions;
    expect_one_shared<M0c>("the third method", bc);
    expect_one_shared<M0>("the second method (after the third registration)", b0);
}

int main(int argc, char** argv) {
    std::string mode = argc > 1 ? argv[1] : "quick";
    if (mode == "replay" && argc > 2) {
        std::string what = argv[2];
        if (what.rfind("A n=", 0) == 0) {
            int n = atoi(what.c_str() + 4);
            auto p = what.find("ops=");
            run_sequence_A(n, what.substr(p + 4), true);
        } else if (what.rfind("B ops=", 0) == 0) {
            replay_B(what.substr(6), true);
        } else if (what.rfind("B add_function", 0) == 0) {
            check_add_function();
        } else if (what.rfind("B shared function", 0) == 0) {
            check_shared_function();
        } else if (what.rfind("B catalog cleared", 0) == 0) {
            check_clear_then_destroy();
        }
        for (auto& v : g_viol)
            printf("VIOL\t%s\n", v.c_str());
        fflush(stdout);
        _exit(g_viol.empty() ? 0 : 1);
    }
    int nA = mode == "thorough" ? 6 : 5;
    int lenA = mode == "thorough" ? 11 : 8;
    int depthB = 16;
    int lenB = mode == "thorough" ? 10 : 7;
    g_shared_current = (char*)mmap(
        nullptr, 4096, PROT_READ | PROT_WRITE, MAP_SHARED | MAP_ANONYMOUS, -1, 0);
    fflush(stdout);
    pid_t pid = fork();
    if (pid != 0) {
        int st = 0;
        waitpid(pid, &st, 0);
        if (WIFEXITED(st) && WEXITSTATUS(st) == 0)
            _exit(0);
        // the exploring child died: its current sequence is the candidate
        printf(
            "CAND\t%s\tprocess died (%s %d) while running this sequence\n",
            g_shared_current, WIFSIGNALED(st) ? "signal" : "exit",
            WIFSIGNALED(st) ? WTERMSIG(st) : WEXITSTATUS(st));
        printf(
            "SUMMARY\t{\"states_A\": 0, \"states_B\": 0, \"transitions\": 0, "
            "\"sequences\": 0, \"sequences_A\": 0, \"checks\": 0, \"crashed\": 1}\n");
        fflush(stdout);
        _exit(0);
    }
    g_print_now = true;
    std::vector<std::string> samples;
    long statesA = 0, statesB = 0;
    for (int n = 1; n <= nA; ++n)
        statesA += bfs_A(n, samples);
    long t_bfsA = g_transitions;
    all_sequences_A(nA >= 4 ? 4 : nA, lenA);
    if (mode == "thorough")
        all_sequences_A(5, 8);
    long seqA = g_sequences;
    statesB = bfs_B(samples, depthB);
    all_sequences_B(lenB);
    check_add_function();
    check_shared_function();
    check_clear_then_destroy();
    for (auto& s : samples)
        printf("SAMPLE\t%s\n", s.c_str());
    printf(
        "SUMMARY\t{\"states_A\": %ld, \"states_B\": %ld, \"transitions\": %ld, "
        "\"sequences\": %ld, \"sequences_A\": %ld, \"checks\": %ld, \"pool_A\": %d, "
        "\"maxlen_A\": %d, \"maxlen_B\": %d, \"bfs_A_transitions\": %ld}\n",
        statesA, statesB, g_transitions, g_sequences, seqA, g_checks, nA, lenA, lenB,
        t_bfsA);
    fflush(stdout);
    _exit(0);
}
