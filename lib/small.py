"""Helper for the single-binary engines (E3 hashx, E6 listx, E7 fwdx): compile
against the current /repo/include, run (optionally sharded), parse, confirm."""
import concurrent.futures as cf
import json
import os
import signal
import time

from . import common as C

CXX = os.environ.get("VERIF_CXX", "g++")


class Engine:
    def __init__(self, name, srcdir, main, flags=None, libs=None):
        self.name, self.srcdir, self.main = name, os.path.join(C.VERIF, srcdir), main
        self.flags = flags or ["-O1", "-DNDEBUG"]
        self.libs = libs or []
        self._key = None

    def key(self):
        if self._key is None:
            self._key = C.tree_hash([self.srcdir], self.name + " ".join(self.flags))
        return self._key

    def binary(self, variant=""):
        return os.path.join(C.build_dir(self.key()), self.name + variant)

    def compile(self, res, variant="", extra_flags=()):
        out = self.binary(variant)
        if os.path.exists(out):
            return out
        tmp = out + ".tmp%d" % os.getpid()
        cmd = [CXX, "-std=c++17", "-w", "-D" + C.GUARD, "-I" + C.INCLUDE,
               os.path.join(self.srcdir, self.main), "-o", tmp] + self.flags + list(extra_flags) + self.libs
        rc, so, se = C.run_cmd(cmd, timeout=1800)
        if rc != 0:
            res.harness_errors.append("compile of %s failed against %s:\n%s" % (self.name, C.INCLUDE, se[-3000:]))
            return None
        os.replace(tmp, out)
        C.prune_build({self.key()})
        return out


def parse(text):
    cands, samples, summary = [], [], None
    for line in text.splitlines():
        if line.startswith("CAND\t"):
            p = line.split("\t")
            cands.append({"case": p[1] if len(p) > 1 else "", "detail": "\t".join(p[2:])})
        elif line.startswith("SAMPLE\t"):
            samples.append(line.split("\t", 1)[1])
        elif line.startswith("SUMMARY\t"):
            try:
                summary = json.loads(line.split("\t", 1)[1])
            except ValueError:
                pass
    return cands, samples, summary


def run(binary, args, timeout=None, env=None):
    t0 = time.time()
    try:
        rc, so, se = C.run_cmd([binary] + list(args), timeout=timeout, env=env)
    except Exception as e:
        return 124, "", "timeout: %s" % e, time.time() - t0
    return rc, so, se, time.time() - t0


def sig_name(rc):
    if rc < 0:
        try:
            return signal.Signals(-rc).name
        except ValueError:
            return "signal %d" % -rc
    return "exit %d" % rc


def confirm(binary, replay_args, env=None):
    r1 = run(binary, replay_args, timeout=300, env=env)
    r2 = run(binary, replay_args, timeout=300, env=env)
    # compare what is violated, not incidental text (addresses in details)
    v1 = sorted(l.split("\t")[1] if "\t" in l else l for l in r1[1].splitlines() if l.startswith("VIOL\t"))
    v2 = sorted(l.split("\t")[1] if "\t" in l else l for l in r2[1].splitlines() if l.startswith("VIOL\t"))
    if r1[0] != 0 and r2[0] != 0 and r1[0] == r2[0] and v1 == v2 and r1[0] != 2:
        return "confirmed", (r1[1] + r1[2])[-1500:]
    if r1[0] == 0 and r2[0] == 0:
        return "not_reproduced", ""
    return "unstable", (r1[1] + r1[2] + r2[1] + r2[2])[-1500:]
