"""Generator of the C11 program family (engine E5): every combination of the
grammar below becomes one declare_method / define_method pair plus a runner in
a generated translation unit. The expected facts are computed by the language
itself inside the program (implicit conversions, dynamic_cast<void*>), the
generator only says which facts to compare."""

SHAPES = ["s_same", "s_single", "s_offset", "s_virtual", "s_deep"]

# kind: (method parameter, definition parameter, argument expression, pointer
# to the Def sub-object inside the body, uses shared ownership)
KINDS = {
    "ref": ("virtual_<{ns}::Base&>", "{ns}::Def&", "static_cast<{ns}::Base&>(obj)", "&{a}", False),
    "cref": ("virtual_<const {ns}::Base&>", "const {ns}::Def&", "static_cast<const {ns}::Base&>(obj)", "&{a}", False),
    "rref": ("virtual_<{ns}::Base&&>", "{ns}::Def&&", "static_cast<{ns}::Base&&>(obj)", "&{a}", False),
    "ptr": ("virtual_<{ns}::Base*>", "{ns}::Def*", "static_cast<{ns}::Base*>(&obj)", "{a}", False),
    "sp": ("virtual_<std::shared_ptr<{ns}::Base>>", "std::shared_ptr<{ns}::Def>", "std::shared_ptr<{ns}::Base>(sp)", "{a}.get()", True),
    "csp": ("virtual_<const std::shared_ptr<{ns}::Base>&>", "const std::shared_ptr<{ns}::Def>&", "spb", "{a}.get()", True),
    "vp": ("virtual_ptr<{ns}::Base>", "virtual_ptr<{ns}::Def>", "virtual_ptr<{ns}::Base>(static_cast<{ns}::Base&>(obj))", "{a}.get()", False),
    "vsp": ("virtual_shared_ptr<{ns}::Base>", "virtual_shared_ptr<{ns}::Def>", "virtual_shared_ptr<{ns}::Base>(spb)", "{a}.get().get()", True),
    "cvp": ("const virtual_ptr<{ns}::Base>&", "const virtual_ptr<{ns}::Def>&", "vpb", "{a}.get()", False),
    "cvsp": ("const virtual_shared_ptr<{ns}::Base>&", "const virtual_shared_ptr<{ns}::Def>&", "vspb", "{a}.get().get()", True),
}

# non-virtual parameter categories: (parameter type, argument expressions for
# the two positions, body record, after-call check)
CATS = {
    "int": dict(ptype="int", args=["11", "22"], rec="g_seen.nv_value[{i}] = {a};",
                check="EXPECT(g_seen.nv_value[{i}] == {v}, \"int argument changed\");", vals=[11, 22]),
    "value_rvalue": dict(ptype="Tracked", args=["Tracked(31)", "Tracked(32)"],
                         rec="g_seen.nv_value[{i}] = {a}.id;",
                         check="EXPECT(g_seen.nv_value[{i}] == {v}, \"by-value argument changed\");",
                         vals=[31, 32], copies=0, max_moves=1),
    "value_xvalue": dict(ptype="Tracked", args=["std::move(t0)", "std::move(t1)"],
                         rec="g_seen.nv_value[{i}] = {a}.id;",
                         check="EXPECT(g_seen.nv_value[{i}] == {v}, \"by-value argument changed\");",
                         vals=[41, 42], copies=0, max_moves=1),
    "value_lvalue": dict(ptype="Tracked", args=["t0", "t1"],
                         rec="g_seen.nv_value[{i}] = {a}.id;",
                         check="EXPECT(g_seen.nv_value[{i}] == {v} && t{i}.id == {v}, \"by-value lvalue argument changed\");",
                         vals=[41, 42], copies=1, max_moves=None),
    "lref": dict(ptype="Tracked&", args=["t0", "t1"], rec="g_seen.nv_addr[{i}] = &{a};",
                 check="EXPECT(g_seen.nv_addr[{i}] == &t{i}, \"reference parameter does not alias the caller's object\");",
                 vals=[41, 42], copies=0, max_moves=0),
    "cref": dict(ptype="const Tracked&", args=["t0", "t1"], rec="g_seen.nv_addr[{i}] = &{a};",
                 check="EXPECT(g_seen.nv_addr[{i}] == &t{i}, \"const reference parameter does not alias the caller's object\");",
                 vals=[41, 42], copies=0, max_moves=0),
    "rref": dict(ptype="Tracked&&", args=["std::move(t0)", "std::move(t1)"], rec="g_seen.nv_addr[{i}] = &{a};",
                 check="EXPECT(g_seen.nv_addr[{i}] == &t{i} && t{i}.id == {v}, \"rvalue reference parameter does not alias the caller's object\");",
                 vals=[41, 42], copies=0, max_moves=0),
    "uptr_rref": dict(ptype="std::unique_ptr<int>&&", args=["std::move(u0)", "std::move(u1)"],
                      rec="g_seen.nv_addr[{i}] = &{a}; g_seen.nv_value[{i}] = *{a};",
                      check="EXPECT(g_seen.nv_addr[{i}] == &u{i} && u{i} && g_seen.nv_value[{i}] == {v}, \"move-only rvalue reference changed\");",
                      vals=[51, 52]),
    "uptr_value": dict(ptype="std::unique_ptr<int>", args=["std::move(u0)", "std::move(u1)"],
                       rec="g_seen.nv_value[{i}] = *{a};",
                       check="EXPECT(g_seen.nv_value[{i}] == {v} && !u{i}, \"move-only by-value argument changed\");",
                       vals=[51, 52]),
    # the definition declares the parameter with another type, reached by an
    # implicit conversion from the method's (dtype = definition-side type)
    "conv_cref_value": dict(ptype="const Tracked&", dtype="Tracked", args=["t0", "t1"],
                            rec="g_seen.nv_value[{i}] = {a}.id;",
                            check="EXPECT(g_seen.nv_value[{i}] == {v} && t{i}.id == {v}, \"argument converted to the definition's by-value parameter changed\");",
                            vals=[41, 42], copies=1, max_moves=None),
    "conv_int_double": dict(ptype="int", dtype="double", args=["11", "22"],
                            rec="g_seen.nv_value[{i}] = (long){a};",
                            check="EXPECT(g_seen.nv_value[{i}] == {v}, \"int argument converted to the definition's double changed\");",
                            vals=[11, 22]),
    "conv_int_class": dict(ptype="int", dtype="Wide", args=["11", "22"],
                           rec="g_seen.nv_value[{i}] = {a}.v;",
                           check="EXPECT(g_seen.nv_value[{i}] == {v}, \"int argument converted to the definition's class type changed\");",
                           vals=[11, 22]),
    # a one-way conversion: cannot go through the macros (they look the method up
    # with the definition's types), uses method<> / add_function directly
    "conv_derived_base": dict(direct=True, ptype="Gadget&", dtype="Tag&", args=["g0", "g1"],
                              rec="g_seen.nv_addr[{i}] = &{a}; g_seen.nv_value[{i}] = {a}.tag;",
                              check="EXPECT(g_seen.nv_addr[{i}] == static_cast<Tag*>(&g{i}) && g_seen.nv_value[{i}] == 22, \"reference converted to the definition's base-class parameter is not the language's conversion\");",
                              vals=[22, 22]),
}

RETS = {
    "int": ("int", "return {n} + 1000;", "int r = {call}; EXPECT(r == {n} + 1000, \"return value changed\");"),
    "void": ("void", "return;", "{call};"),
    "ref": ("Tracked&", "return g_returned;", "Tracked& r = {call}; EXPECT(&r == &g_returned, \"reference return does not alias\");"),
    "value": ("Tracked", "return Tracked(77);", "Tracked::reset(); Tracked r = {call}; EXPECT(r.id == 77 && Tracked::copies == {argcopies}, \"returned object copied or changed\");"),
}

REGISTER = """
register_classes(s_same::Base, s_same::Most1, s_same::Most2);
register_classes(s_single::Base, s_single::Def, s_single::Most2);
register_classes(s_offset::Base, s_offset::Def, s_offset::Most2);
register_classes(s_virtual::Base, s_virtual::Def, s_virtual::Most2);
register_classes(s_deep::Base, s_deep::Mid, s_deep::Def, s_deep::Most2);
"""


def case_text(n, desc, ns, kind, pos, cat, ret):
    mparam, dparam, argexpr, bodyptr, shared = KINDS[kind]
    c = CATS[cat]
    rtype, rstmt, rcheck = RETS[ret]
    names = ["a0", "a1", "a2"]
    mtypes, dtypes, args = [], [], []
    nv = 0
    recs = []
    checks = []
    for p in range(3):
        if p == pos:
            mtypes.append(mparam.format(ns=ns))
            dtypes.append(dparam.format(ns=ns) + " " + names[p])
            args.append(argexpr.format(ns=ns))
        else:
            mtypes.append(c["ptype"])
            dtypes.append(c.get("dtype", c["ptype"]) + " " + names[p])
            args.append(c["args"][nv])
            recs.append(c["rec"].format(i=nv, a=names[p]))
            checks.append(c["check"].format(i=nv, v=c["vals"][nv]))
            nv += 1
    ptr = bodyptr.format(a=names[pos])
    body = ["g_seen = Seen();", "g_seen.def_case = %d;" % n,
            "g_seen.object = (const void*)(%s);" % ptr,
            "g_seen.most_derived = most_derived_of(%s);" % ptr]
    if shared:
        owner = names[pos] if kind in ("sp", "csp") else names[pos] + ".get()"
        body.append("g_seen.use_count = %s.use_count();" % owner)
        body.append("g_seen.same_owner = !%s.owner_before(g_caller_owner) && !g_caller_owner.owner_before(%s);" % (owner, owner))
    body += recs
    body.append("g_seen.copies = Tracked::copies; g_seen.moves = Tracked::moves;")
    body.append(rstmt.format(n=n))
    call = "m%d(%s)" % (n, ", ".join(args))
    run = []
    run.append("template<class Most> static void call_%d(const char* layout) {" % n)
    run.append("  std::string c = std::string(\"%s layout=\") + layout;" % desc)
    run.append("  ++g_cases;")
    run.append("  auto sp = std::make_shared<Most>(); Most& obj = *sp; std::shared_ptr<%s::Base> spb = sp; g_caller_owner = sp;" % ns)
    run.append("  virtual_ptr<%s::Base> vpb(static_cast<%s::Base&>(obj)); virtual_shared_ptr<%s::Base> vspb(spb); (void)vpb; (void)vspb;" % (ns, ns, ns))
    run.append("  long uses = sp.use_count();")
    run.append("  Gadget g0, g1; (void)g0; (void)g1;")
    run.append("  Tracked t0(41), t1(42); auto u0 = std::make_unique<int>(51); auto u1 = std::make_unique<int>(52); (void)u0; (void)u1;")
    run.append("  Tracked::reset(); g_seen = Seen();")
    run.append("  " + rcheck.format(call=call, n=n, argcopies=2 * c.get("copies", 0)))
    run.append("  EXPECT(g_seen.def_case == %d, \"another definition ran\");" % n)
    run.append("  EXPECT(g_seen.object == (const void*)static_cast<const %s::Def*>(&obj), \"definition received another address than the language's own conversion gives\");" % ns)
    run.append("  EXPECT(g_seen.most_derived == most_derived_of(&obj), \"definition received another object\");")
    if shared:
        run.append("  EXPECT(g_seen.same_owner && g_seen.use_count > 0, \"smart pointer does not share ownership with the caller's\");")
    run.append("  g_caller_owner.reset(); EXPECT(sp.use_count() == uses - 1, \"reference count not restored after the call\");")
    for ch in checks:
        run.append("  " + ch)
    if "copies" in c and ret != "value":
        run.append("  if (g_seen.copies != %d) fail(c, \"%s\", \"copies=\" + std::to_string(g_seen.copies) + \" moves=\" + std::to_string(g_seen.moves) + \" for 2 arguments\");"
                   % (2 * c["copies"], "rvalue_copied" if c["copies"] == 0 else "lvalue_copied_more_than_once"))
        if c.get("max_moves") is not None:
            run.append("  else if (g_seen.moves > %d) fail(c, \"moved_more_than_once\", \"copies=\" + std::to_string(g_seen.copies) + \" moves=\" + std::to_string(g_seen.moves) + \" for 2 arguments\");"
                       % (2 * c["max_moves"]))
        run.append("  ++g_facts;")
    run.append("}")
    run.append("static void run_%d() { call_%d<%s::Most1>(\"1\"); call_%d<%s::Most2>(\"2\"); call_%d<%s::Most1>(\"1 again\"); }"
               % (n, n, ns, n, ns, n, ns))
    if c.get("direct"):
        text = "struct key%d;\nusing M%d = method<key%d, %s(%s)>;\n" % (n, n, n, rtype, ", ".join(mtypes))
        text += "static %s def%d(%s) {\n  %s\n}\n" % (rtype, n, ", ".join(dtypes), "\n  ".join(body))
        text += "static M%d::add_function<def%d> reg%d;\n#define m%d M%d::fn\n" % (n, n, n, n, n)
    else:
        text = "declare_method(%s, m%d, (%s));\n" % (rtype, n, ", ".join(mtypes))
        text += "define_method(%s, m%d, (%s)) {\n  %s\n}\n" % (rtype, n, ", ".join(dtypes), "\n  ".join(body))
    text += "\n".join(run) + "\n"
    return text


def family(tier):
    """list of (description, ns, kind, pos, cat, ret)"""
    cases = []
    # F1: casts - every kind x shape x position, int companions
    for ns in SHAPES:
        for kind in KINDS:
            for pos in (0, 1, 2):
                cases.append(("kind=%s shape=%s position=%d companions=int return=int" % (kind, ns, pos),
                              ns, kind, pos, "int", "int"))
    # F2: forwarding - every category x position x return, reference kind
    for cat in CATS:
        for pos in (0, 1, 2):
            for ret in RETS:
                if cat == "int" and ret == "int":
                    continue
                cases.append(("kind=ref shape=s_single position=%d companions=%s return=%s" % (pos, cat, ret),
                              "s_single", "ref", pos, cat, ret))
    # F4: definitions whose non-virtual parameters differ from the method's by an
    # implicit conversion (done by the thunk), also for definitions on the
    # method's own classes
    for cat in ("conv_cref_value", "conv_int_double", "conv_int_class", "conv_derived_base"):
        for ns in ("s_same", "s_offset"):
            for kind in (("ref", "vp", "sp") if tier == "quick" else tuple(KINDS)):
                for pos, ret in ((0, "int"), (1, "value")):
                    cases.append(("kind=%s shape=%s position=%d companions=%s return=%s" % (kind, ns, pos, cat, ret),
                                  ns, kind, pos, cat, ret))
    # F3: other kinds with tracked companions (smart pointers / virtual_ptr
    # share the thunk but not the traits)
    kinds3 = ["ptr", "sp", "vp", "vsp", "csp"] if tier != "quick" else ["sp", "vp"]
    for kind in kinds3:
        for cat in ("value_rvalue", "rref", "uptr_value", "lref"):
            cases.append(("kind=%s shape=s_offset position=1 companions=%s return=int" % (kind, cat),
                          "s_offset", kind, 1, cat, "int"))
    if tier != "quick":
        for ns in ("s_virtual", "s_deep"):
            for kind in ("ref", "sp", "vp"):
                for cat in ("value_rvalue", "value_lvalue", "rref"):
                    for ret in ("ref", "value"):
                        cases.append(("kind=%s shape=%s position=2 companions=%s return=%s" % (kind, ns, cat, ret),
                                      ns, kind, 2, cat, ret))
        # thorough: the full cross product kind x category (the two families meet
        # in the thunk: traits of the virtual kind and forwarding of the companions)
        for kind in KINDS:
            for cat in CATS:
                for ret in ("int", "value"):
                    if cat == "int" and ret == "int":
                        continue
                    cases.append(("kind=%s shape=s_offset position=0 companions=%s return=%s" % (kind, cat, ret),
                                  "s_offset", kind, 0, cat, ret))
        # and kind x shape x position with tracked companions
        for ns in SHAPES:
            for kind in KINDS:
                for pos in (0, 1, 2):
                    cases.append(("kind=%s shape=%s position=%d companions=uptr_rref return=void" % (kind, ns, pos),
                                  ns, kind, pos, "uptr_rref", "void"))
    return cases


def translation_units(tier, per_tu=24):
    cases = family(tier)
    tus = []
    for start in range(0, len(cases), per_tu):
        chunk = cases[start:start + per_tu]
        src = ['#include "args_common.hpp"',
               "#define EXPECT(cond, what) do { ++g_facts; if (!(cond)) fail(c, \"wrong_argument\", what); } while (0)",
               REGISTER]
        runs = []
        for k, (desc, ns, kind, pos, cat, ret) in enumerate(chunk):
            n = start + k
            src.append(case_text(n, desc, ns, kind, pos, cat, ret))
            runs.append("  run_%d();" % n)
        src.append("int main() {\n  update();\n" + "\n".join(runs) +
                   "\n  g_nontrivial = g_cases;\n  g_samples.push_back(\"%s\");\n  return finish();\n}\n"
                   % chunk[0][0])
        tus.append(("args_%s_%d" % (tier, start), "\n".join(src), [c[0] for c in chunk]))
    return tus
