"""Shared plumbing of the /verif checks: build cache, evidence files, replay
files, known findings. See DESIGN.md sections 2, 6, 7."""
import hashlib
import json
import os
import re
import shutil
import subprocess
import sys
import time

VERIF = os.path.dirname(os.path.dirname(os.path.abspath(__file__)))
REPO = os.environ.get("VERIF_REPO", "/repo")
INCLUDE = os.path.join(REPO, "include")
BUILD = os.path.join(VERIF, "build")
OUT = os.path.join(VERIF, "out")
# runs against a scratch tree (seed tests) must not overwrite the evidence of the real tree
EVIDENCE = os.path.join(VERIF, "evidence" if "VERIF_REPO" not in os.environ else "out/evidence_scratch")
NCPU = max(1, min(16, os.cpu_count() or 1))
GUARD = "JLL63_YOMM2_VERIF"


def seed():
    try:
        return int(os.environ.get("VERIF_SEED", "0"))
    except ValueError:
        return 0


def tree_hash(extra_paths=(), extra_text=""):
    """sha256 over the content of every file under /repo/include, the given
    harness sources and the flags: a changed tree always rebuilds."""
    h = hashlib.sha256()
    paths = []
    for root, _dirs, files in os.walk(INCLUDE):
        for f in files:
            paths.append(os.path.join(root, f))
    for p in extra_paths:
        if os.path.isdir(p):
            for root, _dirs, files in os.walk(p):
                for f in files:
                    paths.append(os.path.join(root, f))
        else:
            paths.append(p)
    for p in sorted(paths):
        h.update(p.encode())
        with open(p, "rb") as fh:
            h.update(fh.read())
    h.update(extra_text.encode())
    return h.hexdigest()[:20]


def build_dir(key):
    d = os.path.join(BUILD, key)
    os.makedirs(d, exist_ok=True)
    try:
        os.utime(d, None)  # in use now: prune_build leaves recent directories alone
    except OSError:
        pass
    return d


def prune_build(keep):
    """keep the build directories named in `keep` plus the 6 most recent"""
    if not os.path.isdir(BUILD):
        return
    ents = []
    for name in os.listdir(BUILD):
        p = os.path.join(BUILD, name)
        if os.path.isdir(p) and name not in keep and name != "tmp":
            ents.append((os.path.getmtime(p), p))
    ents.sort(reverse=True)
    # never remove what another check running at the same time (possibly against
    # another tree) may be using: only directories untouched for two hours
    old = time.time() - 7200
    for t, p in ents[6:]:
        if t < old:
            shutil.rmtree(p, ignore_errors=True)


def run_cmd(cmd, timeout=None, cwd=None, env=None):
    e = dict(os.environ)
    e.pop("YOMM2_TRACE", None)
    if env:
        e.update(env)
    p = subprocess.run(cmd, stdout=subprocess.PIPE, stderr=subprocess.PIPE,
                       timeout=timeout, cwd=cwd, env=e)
    return p.returncode, p.stdout.decode(errors="replace"), p.stderr.decode(errors="replace")


# --------------------------------------------------------------------------
# known findings

def load_known():
    path = os.path.join(VERIF, "known_findings.jsonl")
    out = []
    if os.path.exists(path):
        for line in open(path):
            line = line.strip()
            if not line or line.startswith("#"):
                continue
            if line.startswith("fixed:"):
                continue  # fixed entries suppress nothing
            try:
                rec = json.loads(line)
            except ValueError:
                continue
            if rec.get("status") == "known":
                out.append(rec)
    return out


def match_known(known, prop, cand):
    """cand: dict(kind, case, detail, tag). A finding matches when every regex
    of its matcher matches (re.search)."""
    for k in known:
        if k.get("property") != prop:
            continue
        m = k.get("matcher", {})
        ok = True
        for field in ("kind", "case", "detail", "tag", "driver"):
            if field in m and not re.search(m[field], str(cand.get(field, ""))):
                ok = False
                break
        if ok:
            return k
    return None


# --------------------------------------------------------------------------
# results

class Result:
    def __init__(self, prop, tier):
        self.prop = prop
        self.tier = tier
        self.t0 = time.time()
        self.states = 0            # distinct cases explored
        self.transitions = 0       # operations executed on the real code
        self.traces = 0            # explored traces (all run on the impl)
        self.nontrivial = 0
        self.samples = []
        self.candidates = []       # dicts: kind, case, detail, tag, replay{}
        self.confirmed = []        # confirmed violations (after replay)
        self.known_hits = {}       # finding id -> first matching candidate
        self.exhaustive = True
        self.bounds = []           # per completed bound
        self.counters = {}
        self.rule = ""
        self.assumptions = []
        self.notes = []
        self.harness_errors = []
        self.extra = {}

    def counters_sum(self, suffix):
        return sum(v for k, v in self.counters.items() if k.endswith(":" + suffix))

    def add_counters(self, c):
        for k, v in c.items():
            if isinstance(v, (int, float)):
                self.counters[k] = self.counters.get(k, 0) + v


def write_replay(prop, n, payload):
    d = os.path.join(OUT, prop)
    os.makedirs(d, exist_ok=True)
    path = os.path.join(d, "%d.json" % n)
    with open(path, "w") as fh:
        json.dump(payload, fh, indent=1)
    return path


def clear_replays(prop):
    d = os.path.join(OUT, prop)
    if os.path.isdir(d):
        shutil.rmtree(d, ignore_errors=True)


def finish(res, level="model_checking"):
    """Prints KNOWN-FINDING / VIOLATION lines, writes the evidence file and
    returns the exit code."""
    os.makedirs(EVIDENCE, exist_ok=True)
    for fid, (k, cand) in sorted(res.known_hits.items()):
        print("KNOWN-FINDING: property=%s %s %s (e.g. %s %s)" % (
            res.prop, fid, k.get("description", ""), cand.get("case", ""),
            cand.get("detail", "")[:200]))
    n = 0
    lines = []
    for cand in res.confirmed:
        n += 1
        path = write_replay(res.prop, n, cand)
        lines.append("VIOLATION property=%s replay=%s" % (res.prop, path))
        if n <= 20:
            print("  violation %d: [%s/%s] %s :: %s" % (
                n, cand.get("tag", ""), cand.get("kind", ""),
                cand.get("case", ""), cand.get("detail", "")[:300]))
    for l in lines[:50]:
        print(l)
    wall = time.time() - res.t0
    if res.confirmed or res.known_hits:
        # a run cut short by a crash still explored the crashing case
        res.states = max(res.states, 1)
        res.transitions = max(res.transitions, 1)
    cov = {
        "states": int(res.states),
        "transitions": int(res.transitions),
        "traces_validated_against_impl": int(res.traces),
        "samples": res.samples[:8] if res.samples else ["(none)"],
        "evaluations": int(res.states),
        "distinct_nontrivial": int(res.nontrivial),
        "rule": res.rule,
        "exhaustive": bool(res.exhaustive),
        "bounds": res.bounds,
        "counters": res.counters,
        "known_findings_matched": sorted(res.known_hits.keys()),
        "notes": res.notes,
    }
    cov.update(res.extra)
    ev = {
        "property_id": res.prop,
        "tier": res.tier,
        "seed": seed(),
        "level": level,
        "coverage": cov,
        "assumptions": res.assumptions,
        "wall_s": round(wall, 3),
        "violations": len(res.confirmed),
    }
    with open(os.path.join(EVIDENCE, res.prop + ".json"), "w") as fh:
        json.dump(ev, fh, indent=1)
    if res.harness_errors:
        for e in res.harness_errors[:10]:
            print(("HARNESS-WARNING: " if res.confirmed else "HARNESS-ERROR: ") + e, file=sys.stderr)
        if not res.confirmed:
            return 2
    print("%s %s: states=%d transitions=%d nontrivial=%d exhaustive=%s violations=%d known=%d wall=%.1fs" % (
        res.prop, res.tier, res.states, res.transitions, res.nontrivial,
        res.exhaustive, len(res.confirmed), len(res.known_hits), wall))
    return 1 if res.confirmed else 0
