"""Per-property check definitions (spaces, bounds, engines). DESIGN.md section 3."""
import json
import os
import sys

from . import common as C
from . import e1
from .e1 import Run

CHECKS = {}


def check(pid):
    def deco(f):
        CHECKS[pid] = f
        return f
    return deco


COMMON_ASSUMPTIONS = [
    "small-scope: registries larger than the stated bounds are not explored",
    "registration records live in zero-filled static storage, as real registration objects do",
    "harness processes run with ASLR disabled; the reference model (C++) is cross-checked by an independent python model on a slice of all cases and on every candidate",
]

ALL_SHAPES_SMALL = ("n=1-3,k=1,d=2,shapes=all;n=1-3,k=2,d=2,shapes=all;"
                    "n=1-3,k=3,d=1,shapes=all;n=1-2,k=4,d=1,shapes=all")


def rule_dispatch():
    return ("every naturally labelled poset on n classes x every parameter-class tuple x every "
            "multiset of <= d legal definitions x listed shapes/presentations; each registry is "
            "registered in the real catalogs, compiled by the real update<P>() and every legal "
            "argument tuple goes through the real resolve() and operator(). Non-trivial = has a "
            "multiple-inheritance class, or some tuple with != 1 applicable definition.")


# --------------------------------------------------------------------------
@check("C01")
def c01(res, tier, deadline):
    res.rule = rule_dispatch()
    res.assumptions = COMMON_ASSUMPTIONS
    if tier == "quick":
        runs = [
            Run("rel", "dispatch", "n=1-5,k=2,d=3,shapes=RR", "C01", dump_mod=997),
            Run("rel", "dispatch", "n=1-6,k=1,d=3,shapes=R;n=7,k=1,d=2,shapes=R", "C01",
                dump_mod=997, label="rel/plain/dispatch-unary"),
            Run("rel", "dispatch", "n=1-4,k=3,d=2,shapes=RRR;n=1-3,k=4,d=2,shapes=RRRR", "C01",
                dump_mod=997, label="rel/plain/dispatch-k34"),
            Run("rel", "dispatch", ALL_SHAPES_SMALL, "C01", dump_mod=997,
                label="rel/plain/dispatch-shapes"),
            Run("rel", "dispatch", "n=1-5,k=2,d=2,shapes=RR,pres=split|direct,rev=0|1;"
                "n=1-5,k=1,d=3,shapes=R,pres=split|direct,rev=0|1", "C01", dump_mod=997,
                label="rel/plain/dispatch-incremental-registration"),
        ]
        for tag in ("dbg", "map", "ind", "thr", "int"):
            runs.append(Run(tag, "dispatch",
                            "n=1-4,k=2,d=3,shapes=RR|VV|PP|RV;n=1-4,k=1,d=3,shapes=R|V|S|W|X;"
                            "n=1-3,k=3,d=2,shapes=RRR|RNRR|VRP", "C01", dump_mod=997))
    else:
        runs = [
            Run("rel", "dispatch", "n=1-5,k=2,d=4,shapes=RR;n=6,k=2,d=3,shapes=RR", "C01",
                dump_mod=9973),
            Run("rel", "dispatch", "n=1-7,k=1,d=3,shapes=R;n=1-6,k=1,d=4,shapes=R", "C01",
                dump_mod=9973, label="rel/plain/dispatch-unary"),
            Run("rel", "dispatch", "n=1-5,k=3,d=2,shapes=RRR;n=1-4,k=3,d=3,shapes=RRR;"
                "n=1-4,k=4,d=2,shapes=RRRR", "C01", dump_mod=9973,
                label="rel/plain/dispatch-k34"),
            Run("rel", "dispatch", "n=1-4,k=1,d=2,shapes=all;n=1-4,k=2,d=2,shapes=all;"
                "n=1-3,k=3,d=2,shapes=all;n=1-3,k=4,d=1,shapes=all", "C01", dump_mod=9973,
                label="rel/plain/dispatch-shapes"),
            Run("dbg", "dispatch", "n=1-5,k=2,d=3,shapes=RR", "C01", variant="assert",
                dump_mod=9973, label="dbg/assert/dispatch"),
        ]
        for tag in ("dbg", "map", "ind", "thr", "int"):
            runs.append(Run(tag, "dispatch",
                            "n=1-5,k=2,d=3,shapes=RR;n=1-4,k=2,d=3,shapes=VV|PP|RV|VR|SR|RC|WV|XX;"
                            "n=1-5,k=1,d=3,shapes=R|V|S|W|X|P|C;"
                            "n=1-4,k=3,d=2,shapes=RRR|RNRR|VRP|RPS|VVV", "C01", dump_mod=9973))
    e1.execute(res, runs, deadline_total=deadline)


@check("C02")
def c02(res, tier, deadline):
    res.rule = rule_dispatch() + (" Every error cell: handler argument (status, arity, type ids "
                                  "of exactly the virtual arguments), exception reaches the caller, "
                                  "a later call still dispatches; handler-returns => SIGABRT in a "
                                  "forked child.")
    res.assumptions = COMMON_ASSUMPTIONS
    n = "1-5" if tier == "quick" else "1-5"
    runs = []
    sp = ("n=%s,k=2,d=3,shapes=RR;n=1-5,k=1,d=3,shapes=R;n=1-3,k=2,d=2,shapes=allRN;"
          "n=1-4,k=1,d=2,shapes=allRN;"
          "n=1-3,k=3,d=2,shapes=allRN;n=1-2,k=4,d=1,shapes=allRN;"
          "n=1-3,k=2,d=2,shapes=PP|SR|RC|VV|RV|VR|WV|XX;n=1-3,k=1,d=2,shapes=P|S|C|NP|V|W|X|VN;"
          "n=1-3,k=3,d=1,shapes=PNV|RNV|VNR|VRP;"
          # classes registered by several records, each naming part of the bases
          "n=1-4,k=1,d=2,shapes=R|NR,pres=split|direct,rev=0|1;"
          "n=1-4,k=2,d=2,shapes=RR|RNR,pres=split|direct,rev=0|1" % n)
    if tier != "quick":
        sp += ";n=6,k=1,d=3,shapes=R;n=1-4,k=3,d=2,shapes=RRR|RNRNR;n=1-3,k=4,d=2,shapes=RRRR;n=6,k=2,d=2,shapes=RR|RNR"
    for tag in ("rel", "dbg", "thr", "map"):
        runs.append(Run(tag, "dispatch", sp, "C02", dump_mod=997))
    # the deprecated facet: default error handler in place, throwing call_error
    for tag in ("rel", "dbg"):
        runs.append(Run(tag, "dispatch", sp, "C02", extra="handler=call_error_throw",
                        label="%s/plain/dispatch-deprecated" % tag))
    runs.append(Run("rel", "abort", "n=1-2,k=1,d=2,shapes=allRN;n=1-2,k=2,d=2,shapes=allRN;"
                    "n=1-2,k=3,d=2,shapes=allRN;n=1,k=4,d=2,shapes=allRN", "C02", shards=4,
                    label="rel/plain/abort"))
    runs.append(Run("rel", "abort", "n=1-2,k=1,d=2,shapes=R|NR;n=1-2,k=2,d=2,shapes=RR|RNR",
                    "C02", shards=2, extra="handler=call_error", label="rel/plain/abort-deprecated"))
    e1.execute(res, runs, deadline_total=deadline)


@check("C03")
def c03(res, tier, deadline):
    res.rule = rule_dispatch() + " Every definition's next slot after update vs the model."
    res.assumptions = COMMON_ASSUMPTIONS
    if tier == "quick":
        runs = [Run("rel", "dispatch", "n=1-5,k=2,d=3,shapes=RR;n=1-6,k=1,d=3,shapes=R;"
                    "n=1-4,k=3,d=3,shapes=RRR;n=1-3,k=4,d=2,shapes=RRRR", "C03", dump_mod=997),
                Run("dbg", "dispatch", "n=1-4,k=2,d=3,shapes=RR|RNR", "C03", dump_mod=997),
                Run("rel", "history", "", "C03", extra="depth=4,start=" + HIST_FULL,
                    label="rel/plain/history-from-full")]
    else:
        runs = [Run("rel", "dispatch", "n=1-5,k=2,d=4,shapes=RR;n=1-6,k=1,d=4,shapes=R;"
                    "n=1-4,k=3,d=3,shapes=RRR;n=1-4,k=4,d=2,shapes=RRRR;n=6,k=2,d=3,shapes=RR",
                    "C03", dump_mod=9973),
                Run("dbg", "dispatch", "n=1-5,k=2,d=3,shapes=RR|RNR", "C03", dump_mod=9973),
                Run("rel", "history", "", "C03", extra="depth=5,start=" + HIST_FULL,
                    label="rel/plain/history-from-full"),
                Run("rel", "history", "", "C03", extra="depth=6", label="rel/plain/history-from-empty")]
    e1.execute(res, runs, deadline_total=deadline)


@check("C04")
def c04(res, tier, deadline):
    res.rule = ("every poset on n classes x every assignment of parameter classes to a method set "
                "(U=unary, B=binary, T=ternary) x presentations {complete lists, direct bases only, one record per (class, direct base)} "
                "x {label, reverse} record order, plus every assignment of abstract / concrete flags; per registry (for the classes objects can have): slot range / disjointness / exact "
                "(method,parameter) per cell from the compiler object, then a bounds-checked "
                "re-implementation of the table walk for every legal tuple compared with the real "
                "resolve (also run under AddressSanitizer). Non-trivial = has a multiple-"
                "inheritance class (lattice allocation).")
    res.assumptions = COMMON_ASSUMPTIONS
    pres = "pres=full|direct,rev=0|1"
    if tier == "quick":
        runs = [Run("rel", "slots", "n=1-5,set=UUB,d=1,%s;n=1-4,set=UBT,d=1,%s;"
                    "n=1-5,set=UUB,d=1,pres=split,rev=0|1" % (pres, pres)),
                Run("rel", "slots", "n=1-4,set=UUB,d=1,%s;n=1-4,set=UBT,d=1,pres=direct" % pres,
                    variant="asan"),
                Run("dbg", "slots", "n=1-4,set=UUB,d=1,%s" % pres),
                Run("int", "slots", "n=1-4,set=UUB,d=1,%s" % pres),
                # every assignment of abstract / concrete flags to the classes
                Run("rel", "slots", "n=1-4,set=UUB,d=1,abs=all,pres=full|direct;n=5,set=UU,d=1,abs=all,pres=direct",
                    label="rel/plain/slots-abstract-classes")]
    else:
        runs = [Run("rel", "slots", "n=1-5,set=UUB,d=1,pres=split,rev=0|1;n=1-5,set=UBT,d=1,pres=split", label="rel/plain/slots-split"),
                Run("rel", "slots", "n=1-5,set=UUB,d=1,%s;n=1-5,set=UBT,d=1,pres=full|direct;"
                    "n=6,set=UB,d=1,%s;n=1-4,set=UBQ,d=1,pres=direct" % (pres, pres)),
                Run("rel", "slots", "n=1-5,set=UUB,d=1,%s;n=1-4,set=UBT,d=1,%s" % (pres, pres),
                    variant="asan"),
                Run("dbg", "slots", "n=1-5,set=UUB,d=1,%s" % pres),
                Run("int", "slots", "n=1-5,set=UUB,d=1,%s" % pres),
                Run("rel", "slots", "n=1-4,set=UUB,d=1,abs=all,pres=full|direct|split;n=5,set=UB,d=1,abs=all,pres=direct;"
                    "n=1-4,set=UBT,d=1,abs=all,pres=direct",
                    label="rel/plain/slots-abstract-classes")]
    e1.execute(res, runs, deadline_total=deadline, second_oracle=False)


@check("C06")
def c06(res, tier, deadline):
    res.rule = ("registries as in C01 plus a second unary method; for each: every permutation of "
                "the class records (cperm=all) or {identity, reverse, rotations}, every permutation "
                "of the definitions, both method orders, base-list rotations; every observable "
                "(definition run / error kind per tuple, every next) must equal the reference "
                "model and the first permutation's signature. states = permuted registrations.")
    res.assumptions = COMMON_ASSUMPTIONS
    if tier == "quick":
        runs = [Run("rel", "perm", "n=1-4,k=2,d=2,shapes=RR,cperm=all,brot=1;"
                    "n=1-4,k=2,d=3,shapes=RR,cperm=rev;n=5,k=2,d=3,shapes=RR,cperm=rev"),
                Run("int", "perm", "n=1-4,k=2,d=2,shapes=RR,cperm=all;n=1-4,k=1,d=3,shapes=R,cperm=all"),
                Run("rel", "perm", "n=1-4,set=UUB,d=1,cperm=all,pres=full|direct;n=5,set=UUB,d=1,cperm=rev,pres=direct",
                    label="rel/plain/perm-method-sets"),
                # several records per class, each naming part of the bases, in every record order
                Run("rel", "perm", "n=1-3,set=UB,d=1,cperm=all,pres=split;n=4,set=UB,d=1,cperm=rot,pres=split",
                    label="rel/plain/perm-split-records")]
    else:
        runs = [Run("rel", "perm", "n=1-4,k=2,d=3,shapes=RR,cperm=all,brot=1;"
                    "n=5,k=2,d=3,shapes=RR,cperm=rot;n=5,k=2,d=2,shapes=RR,cperm=all;"
                    "n=1-4,k=3,d=2,shapes=RRR,cperm=all"),
                Run("int", "perm", "n=1-4,k=2,d=3,shapes=RR,cperm=all;n=1-5,k=1,d=3,shapes=R,cperm=all"),
                Run("rel", "perm", "n=1-4,set=UUB,d=1,cperm=all,pres=full|direct|split;n=1-4,set=UBT,d=1,cperm=all,pres=direct;"
                    "n=5,set=UUB,d=1,cperm=rot,pres=direct",
                    label="rel/plain/perm-method-sets")]
    e1.execute(res, runs, deadline_total=deadline, second_oracle=False)
    res.states = res.counters_sum("permutations") or res.states
    res.traces = res.states


@check("C08")
def c08(res, tier, deadline):
    res.rule = ("every poset on n classes x every presentation: per class any set S with direct "
                "bases <= S <= transitive bases, with/without the class itself, with/without a "
                "duplicated entry, as one record or split in two records with union S, lists "
                "rotated or not; record orders {given, reversed} (all permutations in the "
                "lattice-only mode). Checked: covariant sets and direct bases reconstructed by the "
                "real compiler, slot disjointness, dispatch and next vs the reference model.")
    res.assumptions = COMMON_ASSUMPTIONS
    if tier == "quick":
        runs = [Run("rel", "pres", "n=1-3,d=2,mode=UB;n=4,d=1,mode=UB,dup=0,rot=0"),
                Run("rel", "pres", "n=1-4,d=0,mode=none,orders=1", label="rel/plain/pres-lattice"),
                Run("rel", "pres", "n=1-5,d=1,mode=UU,subsets=0,self=1,dup=0,split=0,rot=0,orders=1;"
                    "n=1-5,d=0,mode=UB,subsets=0,self=0,dup=0,split=0,rot=0,orders=1;"
                    "n=6,d=1,mode=UU,subsets=0,self=0,dup=0,split=0,rot=0,orders=0",
                    label="rel/plain/pres-direct-orders")]
    else:
        runs = [Run("rel", "pres", "n=1-4,d=2,mode=UB;n=5,d=1,mode=UB,dup=0,split=0,rot=0,self=0"),
                Run("rel", "pres", "n=1-4,d=0,mode=none,orders=1;n=5,d=0,mode=none,dup=0,rot=0",
                    label="rel/plain/pres-lattice"),
                Run("dbg", "pres", "n=1-4,d=1,mode=UB,dup=0,rot=0"),
                Run("rel", "pres", "n=1-5,d=1,mode=UU,subsets=1,self=1,dup=0,split=0,rot=0,orders=1;"
                    "n=1-5,d=1,mode=UB,subsets=0,self=0,dup=0,split=0,rot=0,orders=1;"
                    "n=6,d=1,mode=UU,subsets=0,self=0,dup=0,split=0,rot=0,orders=0;"
                    "n=6,d=0,mode=UB,subsets=0,self=0,dup=0,split=0,rot=0,orders=0",
                    label="rel/plain/pres-direct-orders")]
    e1.execute(res, runs, deadline_total=deadline, second_oracle=False)


@check("C17")
def c17(res, tier, deadline):
    res.rule = ("registries as in C01 x every assignment of abstract/concrete flags (2^n); the "
                "report of the real update (per method and total) vs an enumeration of all legal "
                "class tuples by the reference model; cells vs tables built and installed. "
                "Non-trivial as in C01.")
    res.assumptions = COMMON_ASSUMPTIONS
    if tier == "quick":
        runs = [Run("rel", "report", "n=1-4,k=2,d=3,shapes=RR;n=5,k=2,d=2,shapes=RR;"
                    "n=1-4,k=1,d=2,shapes=R,two=1;n=1-3,k=3,d=2,shapes=RRR;n=1-4,k=2,d=2,shapes=RR,two=1")]
    else:
        runs = [Run("rel", "report", "n=1-4,k=2,d=3,shapes=RR;n=5,k=2,d=3,shapes=RR;"
                    "n=1-5,k=1,d=3,shapes=R,two=1;n=1-4,k=3,d=2,shapes=RRR;"
                    "n=1-5,k=2,d=2,shapes=RR,two=1;n=1-3,k=4,d=2,shapes=RRRR;"
                    "n=6,k=2,d=2,shapes=RR;n=6,k=1,d=3,shapes=R;n=5,k=3,d=1,shapes=RRR;n=4,k=4,d=1,shapes=RRRR"),
                Run("dbg", "report", "n=1-4,k=2,d=3,shapes=RR")]
    e1.execute(res, runs, deadline_total=deadline, second_oracle=False)


@check("C10")
def c10(res, tier, deadline):
    res.rule = ("the same registries (spaces as in C01) under each RTTI flavour: std_rtti (rel), "
                "integer ids with identity projection without hash (int) and with the fast hash and ids starting at 0 (inh), two ids per class with "
                "type_index(id)=id/2 with fast (prj), checked (prc) and without (prn) hash, deferred ids without (dfr) "
                "and with (dfh) hash; each followed by a second update on the same registrations. "
                "For prj/prn every assignment of aliases to every use of a class id (records, base "
                "lists, method and definition parameters; all 2^uses up to a limit, 6 patterns "
                "beyond) and every alias of every argument. Oracle: reference model; cross-flavour "
                "digest of all outcomes must be identical.")
    res.assumptions = COMMON_ASSUMPTIONS + [
        "an id can be the dynamic id of an object only if some class record registered it (as with type_info objects)"]
    base = ("n=1-4,k=2,d=3,shapes=RR;n=1-5,k=1,d=3,shapes=R;n=1-3,k=3,d=2,shapes=RRR;"
            "n=1-4,k=2,d=2,shapes=RR,pres=direct;n=1-4,k=1,d=2,shapes=R,pres=direct|noself;"
            "n=1-4,k=1,d=2,shapes=P|S|C|V|W|X|NR;n=1-3,k=2,d=2,shapes=VV|RV|PP|RNR,pres=full|split")
    big = ("n=1-5,k=2,d=3,shapes=RR;n=1-6,k=1,d=3,shapes=R;n=1-4,k=3,d=2,shapes=RRR;"
           "n=1-5,k=2,d=2,shapes=RR,pres=direct;n=1-5,k=1,d=2,shapes=R,pres=direct|noself;"
           "n=1-3,k=4,d=2,shapes=RRRR;"
           "n=1-5,k=1,d=2,shapes=P|S|C|V|W|X|NR;n=1-4,k=2,d=2,shapes=VV|RV|PP|RNR|WV|XX,pres=full|split")
    space = base if tier == "quick" else big
    runs = [Run(tag, "dispatch", space, "C01,C03", extra="reupdate=1", dump_mod=1999)
            for tag in ("rel", "int", "inh", "prj", "prn", "dfr", "dfh")]
    fl = ("n=1-2,k=2,d=2,shapes=RR,limit=10;n=1-3,k=1,d=2,shapes=R|V,limit=8;"
          "n=3-4,k=2,d=2,shapes=RR,limit=0;n=1-3,k=3,d=1,shapes=RRR,limit=0")
    if tier != "quick":
        fl = ("n=1-2,k=2,d=2,shapes=RR,limit=12;n=1-3,k=1,d=2,shapes=R|V,limit=10;"
              "n=3,k=2,d=2,shapes=RR,limit=8;n=4,k=2,d=2,shapes=RR,limit=0;"
              "n=1-3,k=3,d=2,shapes=RRR,limit=0")
    for tag in ("prj", "prn", "prc"):
        runs.append(Run(tag, "flavour", fl, "C01,C03", extra="reupdate=1",
                        label="%s/plain/flavour" % tag))
    # the unhashed projection flavour under AddressSanitizer: the v-table pointer
    # vector is indexed by the ids themselves
    runs.append(Run("prn", "flavour", "n=1-2,k=2,d=1,shapes=RR,limit=10;n=1-3,k=1,d=1,shapes=R,limit=8",
                    "C01,C03", extra="reupdate=1,fresh=1", variant="asan", label="prn/asan/flavour"))
    e1.execute(res, runs, deadline_total=deadline)
    digests = {}
    for b in res.bounds:
        if b["run"].endswith("/dispatch") and b["complete"]:
            digests[b["run"]] = b["counters"].get("digest", 0) % (1 << 64)
    res.extra["cross_flavour_digests"] = digests
    if len(set(digests.values())) > 1 and not res.confirmed:
        res.harness_errors.append("cross-flavour digests differ without a violation candidate: %s" % digests)


@check("C15")
def c15(res, tier, deadline):
    res.rule = ("stock policy::debug (rebound): every registry of the space x every class left "
                "out in turn x every place it can still occur: (a) a base list, (b) a method "
                "parameter, (c) a definition parameter -> update must report unknown_class_error "
                "with that class's id; (d) only the dynamic class of an argument at each virtual "
                "position, on routes virtual_<T&>, virtual_<T*>, shared_ptr (by value / const&), "
                "virtual_ptr from a base reference, virtual_shared_ptr, const virtual_ptr&, and "
                "virtual_ptr from an object of exactly its static type -> unknown_class_error with "
                "that id at the call / construction, no definition run, no crash (ASan build); "
                "final(obj of another dynamic type) -> method_table_error.")
    res.assumptions = COMMON_ASSUMPTIONS
    if tier == "quick":
        sp = ("n=1-4,k=1,d=2,shapes=R|P|S|C|V|W|X;n=1-4,k=2,d=2,shapes=RR;"
              "n=1-3,k=2,d=2,shapes=VV|RV|PP|VR|WV|XX|SR|RC;"
              # five classes: withdrawing one keeps the size of the hash table
              "n=5,k=1,d=1,shapes=R|V")
        runs = [Run("dbg", "unknown", sp, variant="assert"),
                Run("dbg", "unknown", "n=1-3,k=1,d=2,shapes=R|V|S;n=1-3,k=2,d=1,shapes=RR|RV", variant="asan")]
    else:
        sp = ("n=1-5,k=1,d=2,shapes=R|P|S|C|V|W|X;n=1-5,k=2,d=2,shapes=RR;"
              "n=1-4,k=2,d=2,shapes=VV|RV|PP|VR|WV|XX|SR|RC;n=1-3,k=3,d=1,shapes=RRR|VRP")
        runs = [Run("dbg", "unknown", sp, variant="assert"),
                Run("dbg", "unknown", "n=1-4,k=1,d=2,shapes=R|V|S;n=1-4,k=2,d=2,shapes=RR|RV", variant="asan")]
    e1.execute(res, runs, deadline_total=deadline, second_oracle=False)


@check("C12")
def c12(res, tier, deadline):
    res.rule = ("registries with one method of arity k (1..4; virtual_<T&> parameters, and virtual_ptr mixed with them) that has (mutable) static offsets + "
                "an ordinary unary method on every class, both registration orders: the text "
                "written by the real generator::write_static_offsets is parsed and compared, "
                "position by position, with the compiler result and the installed slots/strides; "
                "the numbers are then fed back as static_offsets<> and every legal tuple is "
                "dispatched through the static-offset branch of the real resolve (release and "
                "debug policies); under the debug policy each number is perturbed (+1, +5/+7) and "
                "must be rejected with static_slot_error / static_stride_error before any "
                "definition runs. Non-trivial = arity >= 3 or a multiple-inheritance lattice.")
    res.assumptions = COMMON_ASSUMPTIONS + [
        "mutable static_offsets<> specialisations stand in for a program compiled with the generated constexpr header; the two-stage program family (4 real domains, arity 1..4, release and debug policy, g++ and clang++) binds the stand-in to real constexpr headers"]
    if tier == "quick":
        sp = ("n=1-4,k=1,d=1;n=1-4,k=2,d=1;n=1-3,k=3,d=1;n=1-3,k=4,d=1,pres=full;"
              "n=1-3,k=2,d=2,pres=full|direct;n=4,k=3,d=0;"
              # the same with virtual_ptr parameters (V, RV, VRV, RVRV)
              "n=1-3,k=1,d=1,vp=1;n=1-3,k=2,d=1,vp=1;n=1-3,k=3,d=1,vp=1;n=1-2,k=4,d=1,vp=1,pres=full")
    else:
        sp = ("n=1-5,k=1,d=2;n=1-5,k=2,d=1;n=1-4,k=3,d=1;n=1-3,k=4,d=1,pres=full|direct;"
              "n=1-4,k=2,d=2,pres=full|direct;n=4,k=4,d=0;"
              "n=1-4,k=1,d=2,vp=1;n=1-4,k=2,d=1,vp=1;n=1-4,k=3,d=1,vp=1;n=1-3,k=4,d=1,vp=1,pres=full;"
              "n=5,k=3,d=1,pres=full;n=4,k=4,d=1,pres=full;n=6,k=2,d=1,pres=direct;n=5,k=2,d=2,pres=full")
    runs = [Run("rel", "offsets", sp), Run("dbg", "offsets", sp, variant="assert")]
    e1.execute(res, runs, deadline_total=deadline, second_oracle=False)
    engines.gen2_stage(res, "OFFSETS", tier)


@check("C13")
def c13(res, tier, deadline):
    res.rule = ("every poset on n classes x every assignment of parameter classes to a method set "
                "(incl. classes no method uses, lattices whose first used slot is not 0, error "
                "cells) x presentations: the text emitted by the real generator::"
                "encode_dispatch_data is parsed (sizes >= 0, initialisers fit their arrays and "
                "uint16_t), a reference decoder checks that the codes are consumed exactly and "
                "that the in-place decoder never overwrites a code it has not read, then the real "
                "decode_dispatch_data runs on a buffer laid out exactly like the emitted struct "
                "between PROT_NONE guard pages (end- and start-aligned) after resetting what a "
                "fresh process has, and every legal tuple must dispatch as after update and as the "
                "model says. Non-trivial = MI lattice or unused classes.")
    res.assumptions = COMMON_ASSUMPTIONS + [
        "zero-length arrays (headroom[0]) are accepted: a GNU extension both supported compilers take",
        "the simulated layout (union of 16-bit arrays with the pointer array, then dtbls) is the one the emitted struct has"]
    if tier == "quick":
        sp = ("n=1-4,set=UUB,d=1,pres=full|direct;n=1-4,set=UBT,d=1;n=1-5,set=U,d=1;"
              "n=1-3,set=BB,d=1;n=5,set=UB,d=1;n=1-4,set=UUB,d=0;"
              # several definitions per method: dispatch tables with repeated cells
              "n=1-4,set=B,d=2;n=1-3,set=B,d=3;n=1-3,set=UB,d=2;n=1-3,set=T,d=2")
    else:
        sp = ("n=1-5,set=UUB,d=1,pres=full|direct;n=1-4,set=UBT,d=1,pres=full|direct;"
              "n=1-6,set=U,d=1;n=1-4,set=BB,d=1;n=1-3,set=UBQ,d=1;n=1-5,set=UUB,d=0;"
              "n=1-5,set=B,d=2;n=1-4,set=B,d=3;n=1-4,set=UB,d=2;n=1-4,set=T,d=2;n=1-3,set=BT,d=2;n=1-3,set=Q,d=2;"
              "n=6,set=UB,d=1;n=5,set=UBT,d=1,pres=direct;n=5,set=B,d=3;n=4,set=BB,d=2")
    runs = [Run("rel", "encode", sp), Run("rel", "encode", "n=1-4,set=UUB,d=1,pres=full|direct;n=1-3,set=UBT,d=1", variant="asan"),
            Run("dbg", "encode", "n=1-4,set=UUB,d=1", variant="assert"),
            Run("rel", "encode", "n=1-4,set=UUB,d=1,pres=split;n=1-4,set=UBT,d=1,pres=split;n=5,set=UB,d=1,pres=split",
                label="rel/plain/encode-split-records")]
    e1.execute(res, runs, deadline_total=deadline, second_oracle=False)
    engines.gen2_stage(res, "TABLES", tier)


HIST_FULL = "abcdemnwxyzU"


@check("C07")
def c07(res, tier, deadline):
    res.rule = ("explicit-state BFS over registration histories on one policy: pool = diamond "
                "lattice of 4 classes with 5 class records (one class registered twice), a unary "
                "and a binary method, 4 definitions; operations = toggle each record / method / "
                "definition (the push_back / remove the registration objects perform) and update; "
                "a state is the history reaching it, replayed in a forked child of a pristine "
                "process, deduplicated on (live catalogs in order, dirty/valid flags, hash "
                "parameters, vector sizes, static v-table pointer null-ness); explored from the "
                "empty state and from the fully registered + updated state. After every update: "
                "predicted success / unknown_class_error, every legal call and every next vs the "
                "reference model AND vs a fresh process given the same registrations in the same "
                "order, a second update changes nothing (outcomes, dispatch data relative to its "
                "base, slots/strides, hash parameters). Non-trivial = successful updates.")
    res.assumptions = COMMON_ASSUMPTIONS + [
        "a method is unregistered only after its definitions; a definition is registered only while its method is",
        "re-registration models a library reload: the record and its id lists are fresh"]
    d0, d1 = (5, 4) if tier == "quick" else (8, 7)
    runs = []
    for tag in ("rel", "dbg", "int", "dfr", "map", "ind", "dfh"):
        dd0, dd1 = (d0, d1) if tag in ("rel", "dfr") else (d0 - 1, d1 - 1)
        runs.append(Run(tag, "history", "", "C07", extra="depth=%d" % dd0,
                        label="%s/plain/history-from-empty" % tag))
        runs.append(Run(tag, "history", "", "C07", extra="depth=%d,start=%s" % (dd1, HIST_FULL),
                        label="%s/plain/history-from-full" % tag))
        # partially registered starting points: histories that swap one class
        # for another (same number of classes, different set) become short
        for k, st in enumerate(("abmU", "abcmnwyU")):
            runs.append(Run(tag, "history", "", "C07", extra="depth=%d,start=%s" % (dd1, st),
                            label="%s/plain/history-from-partial%d" % (tag, k)))
    e1.execute(res, runs, deadline_total=deadline, second_oracle=False)


# --------------------------------------------------------------------------
def replay(prop, path):
    with open(path) as fh:
        cand = json.load(fh)
    engine = cand.get("engine", "E1")
    if engine == "E1":
        res = C.Result(prop, "quick")
        if not e1.build_all([Run(cand["tag"], cand["driver"], "", variant=cand["variant"])], res):
            for e in res.harness_errors:
                print(e, file=sys.stderr)
            return 2
        if cand.get("replay_kind") == "prefix":
            again = e1.prefix_replay_once(cand)
            print("replayed shard prefix up to case %s of %s [%s]: %s" % (
                cand.get("index"), cand.get("shard"), cand.get("kind"), cand.get("case")))
            if again:
                print("VIOLATION property=%s replay=%s" % (prop, path))
                return 1
            print("not reproduced: property holds on this history")
            return 0
        rc, so, se = e1.replay_once(cand)
        sys.stdout.write(so)
        sys.stderr.write(se[-3000:])
        print("replayed [%s] %s :: %s" % (cand.get("kind"), cand.get("case"), cand.get("detail", "")[:300]))
        if rc != 0:
            print("VIOLATION property=%s replay=%s" % (prop, path))
            return 1
        print("not reproduced: property holds on this case")
        return 0
    return engines.replay(prop, cand, path)


from . import engines  # noqa: E402  (registers C05, C18, C19)
