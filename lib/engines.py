"""Checks served by the small single-binary engines: E3 hashx (C05), E6 listx
(C18), E7 fwdx (C19). DESIGN.md 2.5 and section 3."""
import concurrent.futures as cf
import os
import sys
import tempfile

from . import common as C
from . import small
from .props import check, COMMON_ASSUMPTIONS

E3 = small.Engine("hashx", "e3", "hashx.cpp")
E6 = small.Engine("listx", "e6", "listx.cpp")
E7 = small.Engine("fwdx", "e7", "fwdx.cpp")
E2ISO = small.Engine("iso", "e2", "iso.cpp")


def _triage(res, engine_name, binary, cands, mkreplay):
    """known findings, then confirmation by replaying twice"""
    known = C.load_known()
    todo, seen = [], set()
    for c in cands:
        c.setdefault("kind", engine_name)
        c["engine"] = engine_name
        k = C.match_known(known, res.prop, c)
        if k is not None:
            res.known_hits.setdefault(k["id"], (k, c))
            continue
        if c["case"] in seen:
            continue
        seen.add(c["case"])
        todo.append(c)
    todo.sort(key=lambda c: (len(c["case"]), c["case"]))
    for c in todo[:30]:
        verdict, out = small.confirm(binary, mkreplay(c))
        if verdict == "confirmed":
            c["replay_output"] = out
            c["replay_args"] = mkreplay(c)
            res.confirmed.append(c)
        elif verdict == "not_reproduced" and c.get("origin_args"):
            # depends on what the same process did before (e.g. registration
            # objects with process lifetime): re-run the part it came from
            again = []
            for _ in range(2):
                rc, so, se, dt = small.run(binary, c["origin_args"], timeout=3000)
                again.append(any(x["case"] == c["case"] for x in small.parse(so)[0]))
            if all(again):
                c["replay_args"] = c["origin_args"]
                c["replay_kind"] = "part"
                res.confirmed.append(c)
            else:
                res.harness_errors.append("candidate did not reproduce: %s :: %s" % (c["case"], c["detail"][:200]))
        elif verdict == "not_reproduced":
            res.harness_errors.append("candidate did not reproduce: %s :: %s" % (c["case"], c["detail"][:200]))
        else:
            res.harness_errors.append("candidate reproduced inconsistently: %s" % c["case"])


def _run_many(res, binary, arglists, timeout=None):
    """runs the binary once per argument list on the pool; returns merged
    (cands, samples, summaries)"""
    cands, samples, sums = [], [], []
    with cf.ThreadPoolExecutor(max_workers=C.NCPU) as ex:
        futs = {ex.submit(small.run, binary, a, timeout): a for a in arglists}
        for f in cf.as_completed(futs):
            a = futs[f]
            rc, so, se, dt = f.result()
            c, s, summ = small.parse(so)
            if rc != 0 or summ is None:
                # the process died: that is a crash on some case of this part
                if rc == 124:
                    res.harness_errors.append("%s %s timed out" % (binary, " ".join(a)))
                elif rc < 0:
                    cands.append({"case": "crash " + " ".join(a), "kind": "crash",
                                  "detail": "process died with %s: %s" % (small.sig_name(rc), se[-300:]),
                                  "crash_args": list(a)})
                else:
                    res.harness_errors.append("%s %s exited %d: %s" % (binary, " ".join(a), rc, se[-500:]))
                continue
            for x in c:
                x["origin_args"] = list(a)
            cands += c
            samples += s
            summ["_args"] = " ".join(a)
            summ["_wall_s"] = round(dt, 2)
            sums.append(summ)
    return cands, samples, sums


# --------------------------------------------------------------------------
@check("C18")
def c18(res, tier, deadline):
    res.rule = ("part A: BFS over all reachable states of detail::static_list over a node pool "
                "(state = sequence of linked nodes), every operation (push_back of each unlinked "
                "node, remove of each linked node, clear) from every state, plus every operation "
                "sequence up to a length run end-to-end; part B: the same through real "
                "class_declaration / method / definition_info objects constructed and destroyed in "
                "zero-filled static storage. After every operation: iteration by iterator and "
                "const_iterator, size(), empty(), all link fields vs a std::vector model. "
                "Non-trivial = sequences (all contain at least one removal or clear beyond length 2).")
    res.assumptions = ["registration objects live in zero-filled static storage",
                       "a method object is destroyed after its definitions (the library does not promise more)"]
    binary = E6.compile(res)
    if not binary:
        return
    cands, samples, sums = _run_many(res, binary, [[tier]], timeout=3000)
    for s in sums:
        res.states += s["states_A"] + s["states_B"]
        res.transitions += s["transitions"]
        res.traces += s["sequences"]
        res.nontrivial += s["sequences"]
        res.add_counters({k: v for k, v in s.items() if not k.startswith("_")})
        res.bounds.append({"run": "listx " + tier, "complete": True, "wall_s": s["_wall_s"], "counters": s})
    res.samples = samples[:8]
    for c in cands:
        if c.get("kind") == "crash":
            c["case"] = "crash"
    _triage(res, "E6", binary, cands,
            lambda c: ["replay", c["case"]] if c.get("kind") != "crash" else [tier])


@check("C19")
def c19(res, tier, deadline):
    res.rule = ("writer: every declarable set of <= k qualified names over an identifier alphabet "
                "with string-prefix collisions {a, ab, abc, b, a1, a_, B} and namespace depth <= d, "
                "each given to the real generator and the output parsed by a recursive-descent "
                "parser of `namespace id {..}` / `class id;` (balanced, each requested class once "
                "in its namespace, nothing else); extractor: every derivation up to a depth of a "
                "type-description grammar (pointers, references, cv, templates, std::, yorel::, "
                "function types) spelled like boost::core::demangle. Non-trivial = nested names "
                "sharing a leading character / descriptions with cv-qualifiers or >= 2 classes. "
                "A sample of outputs is compiled with g++ -fsyntax-only.")
    res.assumptions = ["names in which one identifier is both a class and a namespace are excluded (not declarable in C++)",
                       "class names inside anonymous namespaces or nested in templates are outside the grammar"]
    binary = E7.compile(res)
    if not binary:
        return
    n = C.NCPU
    cands, samples, sums = _run_many(res, binary, [[tier, "%d/%d" % (i, n)] for i in range(n)], timeout=3000)
    compile_texts = []
    for s in sums:
        res.states += s["cases"]
        res.traces += s["cases"]
        res.transitions += s["transitions"]
        res.nontrivial += s["nontrivial"]
    res.bounds.append({"run": "fwdx " + tier, "complete": True,
                       "counters": {"cases": res.states, "shards": len(sums)}})
    res.samples = samples[:8]
    # syntax check of a sample of outputs with the real compiler
    texts = []
    for a in ([tier, "0/%d" % n],):
        rc, so, se, dt = small.run(binary, a, timeout=3000)
        for line in so.splitlines():
            if line.startswith("COMPILE\t"):
                texts.append(line.split("\t", 1)[1])
    if texts:
        with tempfile.TemporaryDirectory(dir=C.build_dir(E7.key())) as td:
            src = os.path.join(td, "fwd.cpp")
            with open(src, "w") as fh:
                for i, t in enumerate(texts):
                    fh.write("namespace sample_%d {\n%s\n}\n" % (i, t))
            rc, so, se = C.run_cmd(["g++", "-std=c++17", "-fsyntax-only", src], timeout=600)
            res.extra["compiled_samples"] = len(texts)
            if rc != 0:
                cands.append({"case": "W|(compiled sample)", "kind": "not_compilable",
                              "detail": se[-800:]})
    _triage(res, "E7", binary, cands, lambda c: ["replay", c["case"]])


@check("C05")
def c05(res, tier, deadline):
    res.rule = ("id sets: a finite alphabet of families (arithmetic progressions over 7 bases x "
                "~20 strides x sizes 0..144 (610 thorough), high-bits-only, bit-reversed counters, "
                "two clusters, two ids per class, xorshift pseudo-random with VERIF_SEED) fully "
                "enumerated under fast / checked / indirect policies; histories: every sequence of "
                "2..3 (4 thorough) publish_vptrs calls over a 12-set sub-alphabet on one policy "
                "state; budgets: every budget in {1..8,16,64} x the alphabet, then the default "
                "budget on the same state (hook H1). After each call: perfect on registered ids, "
                "v-table pointer at each index, control table, and (checked) unknown_class_error "
                "for every probe id (earlier-registered ids, neighbours, small integers). "
                "Non-trivial = everything except dense small-integer sets.")
    res.assumptions = ["invalid_type (all ones) is never registered nor probed (documented as 'not a type id')",
                       "ids of distinct classes are distinct (the class map merges duplicates before hashing)"]
    binary = E3.compile(res)
    if not binary:
        return
    n = C.NCPU
    seed = str(C.seed())
    args = []
    for mode in ("sets", "hist", "budget"):
        for i in range(n):
            args.append([mode, tier, "%d/%d" % (i, n), seed])
    cands, samples, sums = _run_many(res, binary, args, timeout=6000)
    per_mode = {}
    for s in sums:
        mode = s["_args"].split()[0]
        pm = per_mode.setdefault(mode, {"cases": 0, "transitions": 0, "probes": 0, "search_errors": 0,
                                        "nontrivial": 0, "wall_s": 0})
        for k in ("cases", "transitions", "probes", "search_errors", "nontrivial"):
            pm[k] += s[k]
        pm["wall_s"] = max(pm["wall_s"], s["_wall_s"])
        pm["alphabet"] = s["alphabet"]
    for mode, pm in sorted(per_mode.items()):
        res.states += pm["cases"]
        res.traces += pm["cases"]
        res.transitions += pm["transitions"] + pm["probes"]
        res.nontrivial += pm["nontrivial"]
        res.bounds.append({"run": "hashx " + mode, "complete": True, "counters": pm})
    res.add_counters({"search_errors": sum(pm["search_errors"] for pm in per_mode.values())})
    res.samples = samples[:8]
    # handler returns after a hash_search_error => abort (forked child)
    aborted = 0
    for spec in ("arith:0:1:40@1", "rand:3:89@1", "arith:4096:16:34@2"):
        rc, so, se, dt = small.run(binary, ["child", "F " + spec], timeout=600)
        res.transitions += 1
        if rc == -6:
            aborted += 1
        elif rc == 0:
            # search succeeded within the budget: no error to return from
            pass
        else:
            cands.append({"case": "F " + spec, "kind": "no_abort",
                          "detail": "handler returned after hash_search_error and the process ended with %s" % small.sig_name(rc)})
    res.extra["abort_children"] = aborted
    _triage(res, "E3", binary, cands, lambda c: ["replay", c["case"]])


@check("C14")
def c14(res, tier, deadline):
    res.rule = ("worlds: W2 = {A = release rebound, B = rebound + checked hash (replace)}; WE = {a policy whose "
                "facets take a second template argument, its rebind}; WS = {policy::debug, policy::release "
                "themselves}; W3 (thorough) adds C = std_rtti "
                "+ vptr_map + vectored_error (thorough), sharing classes K0..K3 and methods with "
                "the same key and signature; operations per policy: toggle each of 4 class "
                "records (real class_declaration objects), toggle 3 definitions (one through the "
                "real add_function with a function shared by all policies), update, install an "
                "error handler, create a virtual_ptr; EVERY operation sequence up to the depth from "
                "the pristine state, from 'one policy fully set up' and (thorough) from 'both set up' is executed; after each "
                "operation the full snapshot of every other policy (catalogs, handler identity by "
                "behaviour, dispatch data address/size/content, hash parameters, v-table pointer "
                "vector, static v-table pointers, slots/strides, outcome of every legal call and "
                "of a call through a live virtual_ptr) must be unchanged, and the acting policy "
                "must match a reference model. Non-trivial = sequences touching >= 2 policies.")
    res.assumptions = ["policies obtained with rebind (replace/remove without rebind keeps the original key by design)",
                       "worlds are reset explicitly between sequences (statics cleared), not by re-executing the process"]
    binary = E2ISO.compile(res)
    if not binary:
        return
    n = C.NCPU
    cands, samples, sums = _run_many(res, binary, [[tier, "%d/%d" % (i, n)] for i in range(n)], timeout=7000)
    for s in sums:
        res.states += s["sequences"]
        res.traces += s["sequences"]
        res.transitions += s["transitions"]
        res.nontrivial += s["nontrivial"]
        res.add_counters({"snapshots": s["snapshots"]})
    res.bounds.append({"run": "iso " + tier, "complete": True,
                       "counters": {"sequences": res.states, "shards": len(sums)}})
    res.samples = samples[:8]
    _triage(res, "E2ISO", binary, cands,
            lambda c: ["replay", c["case"]] if c.get("kind") != "crash" else c["crash_args"])



# --------------------------------------------------------------------------
# E4 schedx (C16)

E4DIR = os.path.join(C.VERIF, "e4")


def _e4_key():
    return C.tree_hash([E4DIR], "e4")


def _e4_build(res):
    d = C.build_dir(_e4_key())
    out = {"sched": os.path.join(d, "schedx"), "free_gcc": os.path.join(d, "freerun_gcc"),
           "free_clang": os.path.join(d, "freerun_clang")}
    jobs = []
    if not os.path.exists(out["sched"]):
        def build_sched():
            rt = os.path.join(d, "mc_rt.o")
            ob = os.path.join(d, "schedx.o")
            rc, so, se = C.run_cmd(["gcc", "-O1", "-c", os.path.join(E4DIR, "mc_rt.c"), "-o", rt])
            if rc:
                return "mc_rt.c: " + se[-1500:]
            # instrumentation at compile time only: every load / store of the
            # harness bodies and of the yomm2 headers calls a __tsan_* hook
            rc, so, se = C.run_cmd(["g++", "-std=c++17", "-O1", "-w", "-fsanitize=thread",
                                    "-D" + C.GUARD, "-I" + C.INCLUDE, "-I" + E4DIR, "-c",
                                    os.path.join(E4DIR, "schedx.cpp"), "-o", ob], timeout=1800)
            if rc:
                return "schedx.cpp: " + se[-1500:]
            rc, so, se = C.run_cmd(["g++", ob, rt, "-o", out["sched"] + ".tmp", "-lpthread", "-ldl"])
            if rc:
                return "link: " + se[-1500:]
            os.replace(out["sched"] + ".tmp", out["sched"])
            return ""
        jobs.append(build_sched)
    for name, cxx in (("free_gcc", "g++"), ("free_clang", "clang++")):
        if not os.path.exists(out[name]):
            def build_free(name=name, cxx=cxx):
                rc, so, se = C.run_cmd([cxx, "-std=c++17", "-O1", "-w", "-fsanitize=thread", "-DFREE_RUN",
                                        "-D" + C.GUARD, "-I" + C.INCLUDE, "-I" + E4DIR,
                                        os.path.join(E4DIR, "schedx.cpp"), "-o", out[name] + ".tmp"],
                                       timeout=1800)
                if rc:
                    return name + ": " + se[-1500:]
                os.replace(out[name] + ".tmp", out[name])
                return ""
            jobs.append(build_free)
    with cf.ThreadPoolExecutor(max_workers=4) as ex:
        for err in ex.map(lambda f: f(), jobs):
            if err:
                res.harness_errors.append("E4 build failed against %s:\n%s" % (C.INCLUDE, err))
    C.prune_build({_e4_key()})
    return out if not res.harness_errors else None


@check("C16")
def c16(res, tier, deadline):
    import json
    res.rule = ("harness bodies (calls by reference incl. error cells with a throwing handler, "
                "resolve, virtual_ptr from a base reference / copies / final, virtual_shared_ptr "
                "copies with atomic reference counts, and update<> of an unrelated policy) run as 2-3 "
                "real threads under a controlled scheduler whose scheduling points are the memory "
                "accesses of the real call path (compile-time -fsanitize=thread instrumentation "
                "bound to an own runtime): DFS over all interleavings with <= 2 (3 thorough) "
                "preemptions at conflicting accesses, atomics and thread start/end; conflict set "
                "grown to a fixpoint; oracles: vector-clock happens-before race monitor, per-thread "
                "results == sequential table, no deadlock/livelock. Then the same bodies free-running "
                "under the real ThreadSanitizer (g++ and clang++). states = schedules executed; "
                "non-trivial = schedules with at least one preemption.")
    res.assumptions = [
        "sequentially consistent interleavings of the accesses the compiler emitted at -O1; weak-memory reorderings are not modelled (the property's argument is 'no writes on the call path')",
        "uninstrumented libc / libstdc++ code is invisible to the hooks; memory returned to the allocator is treated as handed over (free() clears the shadow state)",
        "the engine self-test (a seeded check-then-act cache) must be found on every run, else the run is a harness error"]
    b = _e4_build(res)
    if not b:
        return
    rc, so, se, dt = small.run(b["sched"], [tier, "list"], timeout=300)
    scenarios = [l.strip() for l in so.splitlines() if ":" in l and not l.startswith("SELFTEST")]
    if not scenarios:
        res.harness_errors.append("no scenarios listed: " + se[-300:])
        return
    cands = []
    with cf.ThreadPoolExecutor(max_workers=C.NCPU) as ex:
        futs = {ex.submit(small.run, b["sched"], [tier, sc], 3000): sc for sc in scenarios}
        for f in cf.as_completed(futs):
            sc = futs[f]
            rc, so, se, dt = f.result()
            got = False
            for line in so.splitlines():
                if line.startswith("HARNESS\t"):
                    res.harness_errors.append(line)
                elif line.startswith("SELFTEST\t"):
                    st = json.loads(line.split("\t", 1)[1])
                    res.extra["selftest"] = st
                elif line.startswith("SCENARIO\t"):
                    s = json.loads(line.split("\t", 1)[1])
                    got = True
                    res.states += s["executions"]
                    res.traces += s["executions"]
                    res.transitions += sum(s["reads"]) + sum(s["writes"]) + sum(s["atomics"])
                    res.nontrivial += max(0, s["executions"] - s["threads"])
                    complete = not s["budget_hit"]
                    if not complete:
                        res.exhaustive = False
                    res.bounds.append({"run": "schedx " + s["name"], "complete": complete,
                                       "preemption_bound_completed": s["bound_completed"],
                                       "wall_s": round(dt, 2), "counters": s})
                    if len(res.samples) < 6:
                        res.samples.append({"scenario": s["name"], "schedules": s["executions"],
                                            "outcome": s["sample_outcome"]})
                elif line.startswith("CAND\t"):
                    p = line.split("\t")
                    cands.append({"case": sc, "kind": "schedule", "detail": " | ".join(p[2:]),
                                  "replay_args": [tier, sc]})
            if not got:
                cands.append({"case": sc, "kind": "crash", "replay_args": [tier, sc],
                              "detail": "explorer process ended with %s: %s" % (small.sig_name(rc), se[-300:])})
    # free-running pass under the real ThreadSanitizer
    iters = "300" if tier == "quick" else "3000"
    free_timeout = 300 if tier == "quick" else 1500
    env = {"TSAN_OPTIONS": "halt_on_error=1 exitcode=66 report_signal_unsafe=0"}
    for name in ("free_gcc", "free_clang"):
        # normally seconds; a run that does not end (a corrupted structure
        # traversed forever is a typical outcome of a race) is a candidate
        rc, so, se, dt = small.run(b[name], [iters], timeout=free_timeout, env=env)
        res.transitions += 1
        ok = rc == 0 and "FREERUN" in so
        res.bounds.append({"run": "real ThreadSanitizer, free running (%s)" % name, "complete": True,
                           "wall_s": round(dt, 2), "counters": {"iterations": int(iters), "rc": rc}})
        if not ok:
            cands.append({"case": "freerun:" + name, "kind": "tsan",
                          "detail": (se + so)[-600:].replace("\n", " | "),
                          "replay_args": [iters], "binary": name})
    # triage: every scenario with candidates is replayed (the exploration is
    # deterministic); report the first candidate of each
    known = C.load_known()
    seen = set()
    for c in cands:
        c["engine"] = "E4"
        k = C.match_known(known, res.prop, c)
        if k is not None:
            res.known_hits.setdefault(k["id"], (k, c))
            continue
        if c["case"] in seen:
            continue
        seen.add(c["case"])
        binary = b.get(c.get("binary", ""), b["sched"])
        e = env if c["kind"] == "tsan" else None
        r1 = small.run(binary, c["replay_args"], timeout=free_timeout if c["kind"] == "tsan" else 3000, env=e)
        bad = (r1[0] != 0) or ("CAND\t" in r1[1])
        if bad:
            res.confirmed.append(c)
        else:
            res.harness_errors.append("candidate did not reproduce: %s :: %s" % (c["case"], c["detail"][:200]))
    res.counters["distinct_outcomes_max"] = max([x["counters"].get("distinct_outcomes", 0)
                                                 for x in res.bounds if "distinct_outcomes" in x["counters"]] or [0])


# --------------------------------------------------------------------------
# E5 progx: program families compiled against /repo/include

E5DIR = os.path.join(C.VERIF, "e5")


def _e5_key():
    return C.tree_hash([E5DIR, os.path.join(C.VERIF, "lib", "gen_args.py"),
                        os.path.join(C.VERIF, "lib", "gen_vptr.py")]
                       if os.path.exists(os.path.join(C.VERIF, "lib", "gen_vptr.py"))
                       else [E5DIR, os.path.join(C.VERIF, "lib", "gen_args.py")], "e5")


def _compile_variant(src, name, defs, opt="-O0", timeout=3000, extra=()):
    d = C.build_dir(_e5_key())
    out = os.path.join(d, name)
    if os.path.exists(out):
        return out, ""
    cmd = [small.CXX, "-std=c++17", opt, "-w", "-D" + C.GUARD, "-I" + C.INCLUDE, "-I" + E5DIR] + \
        ["-D" + x for x in defs] + list(extra) + [os.path.join(E5DIR, src), "-o", out + ".tmp"]
    try:
        rc, so, se = C.run_cmd(cmd, timeout=timeout)
    except Exception as e:
        return None, "timeout: %s" % e
    if rc:
        return None, se[-2500:]
    os.replace(out + ".tmp", out)
    return out, ""


def _first_error(err):
    lines = [l for l in err.splitlines() if " error: " in l or l.startswith("error: ")]
    return ("a program of the family does not compile: " + " | ".join(lines[:2]))[:800] if lines else err[-800:]


def _is_cxx_diagnostic(err):
    """a compile failure counts as a violation only when the compiler rejected the
    program (a C++ diagnostic), not when the compilation itself could not run"""
    return " error: " in err or "\nerror: " in err or " error " in err and "ld returned" in err


def _run_family(res, src, variants, compile_failure_is_violation=False, run_timeout=600, run_args=()):
    """variants: list of (name, defs, description). Compiles and runs them all
    on the pool; returns (cands, samples, summaries)"""
    cands, samples, sums = [], [], []

    def one(v):
        name, defs, desc = v
        binary, err = _compile_variant(src, name, defs)
        if not binary:
            return v, None, err, 0
        rc, so, se, dt = small.run(binary, list(run_args), timeout=run_timeout)
        return v, (rc, so, se), "", dt

    with cf.ThreadPoolExecutor(max_workers=C.NCPU) as ex:
        for v, r, err, dt in ex.map(one, variants):
            name, defs, desc = v
            if r is None:
                if compile_failure_is_violation and _is_cxx_diagnostic(err):
                    cands.append({"case": desc, "kind": "does_not_compile", "detail": _first_error(err),
                                  "variant": [name, defs]})
                else:
                    res.harness_errors.append("program %s does not compile against %s:\n%s" % (desc, C.INCLUDE, err))
                continue
            rc, so, se = r
            c, s, summ = small.parse(so)
            for x in c:
                x["variant"] = [name, defs]
            if rc != 0 or summ is None:
                cands.append({"case": desc, "kind": "crash", "variant": [name, defs],
                              "detail": "program ended with %s: %s" % (small.sig_name(rc), (se or so)[-300:])})
            else:
                summ["_variant"] = desc
                summ["_wall_s"] = round(dt, 2)
                sums.append(summ)
            cands += c
            samples += s
    C.prune_build({_e5_key()})
    return cands, samples, sums


def _triage_family(res, src, cands, run_args=()):
    known = C.load_known()
    seen = set()
    for c in cands:
        c["engine"] = "E5"
        c["src"] = src
        k = C.match_known(known, res.prop, c)
        if k is not None:
            res.known_hits.setdefault(k["id"], (k, c))
            continue
        key_ = (c["case"], c.get("kind"))
        if key_ in seen or len(res.confirmed) >= 25:
            continue
        seen.add(key_)
        # replay: the program is deterministic; run it again and look for the
        # same candidate line
        name, defs = c["variant"]
        binary, err = _compile_variant(src, name, defs)
        if not binary:
            if c.get("kind") == "does_not_compile":
                res.confirmed.append(c)
            continue
        rc, so, se, dt = small.run(binary, list(run_args), timeout=1200)
        again = [x for x in small.parse(so)[0] if x["case"] == c["case"]]
        if again or rc != 0:
            c["run_args"] = list(run_args)
            res.confirmed.append(c)
        else:
            res.harness_errors.append("candidate did not reproduce: %s :: %s" % (c["case"], c["detail"][:200]))


def _small_shapes():
    out = []
    for a in range(1, 7):
        for b in range(0, 7):
            for c_ in range(0, 7):
                if b == 0 and c_ != 0:
                    continue
                n = a * (b or 1) * (c_ or 1)
                if n <= 6 and max(a, b, c_) <= 3:
                    out.append((a, b, c_))
    return out


@check("C09")
def c09(res, tier, deadline):
    res.rule = ("one generated program per real C++ class lattice {chain, tree, diamond with a "
                "virtual base, root as second base at a non-zero offset, tree with an abstract class whose "
                "constructors / destructors dispatch on the object under construction}; inside, for each of four "
                "policies {direct, checked, map, indirect} x every subset of the four classes "
                "carrying definitions (16) x every (static class B, pointee class D <= B) x every "
                "construction route {from a base reference, exact type, final, final_virtual_ptr, "
                "converting from lvalue / const / rvalue virtual_ptr<D>, copy, shared from lvalue / "
                "const / rvalue shared_ptr, converting shared, make_virtual_shared, final on a shared_ptr "
                "lvalue / const / rvalue, moved, copy- / move- / converting-assigned, const-qualified pointees "
                "(plain and shared)}: the definition "
                "reached through the virtual_ptr (by value, by const&, and in a binary method mixed "
                "with virtual_<T&>) equals the one reached with a plain reference; get / * / -> give "
                "the original object; definitions see the pointee; use_count consistent. Histories: "
                "every sequence up to the depth over {toggle each definition, update, create a "
                "pointer by 4 routes, call through all live pointers} on the indirect and direct "
                "policies: a pointer created before later updates (indirect) or since the last "
                "update (direct) dispatches like a plain reference does now.")
    res.assumptions = ["class registrations are not withdrawn while pointers to them are alive",
                       "five lattices of four real classes; registries beyond that are covered through virtual_ptr shapes of engine E1"]
    depth = "4" if tier == "quick" else "5"
    variants = [("vptr_lat%d" % l, ["LATTICE=%d" % l], "lattice %d" % l) for l in range(5)]
    cands, samples, sums = _run_family(res, "vptr.cpp", variants, run_args=[depth], run_timeout=3000,
                                       compile_failure_is_violation=True)
    for s in sums:
        res.states += s["cases"] + s["histories"]
        res.traces += s["cases"] + s["histories"]
        res.nontrivial += s["cases"]
        res.transitions += s["facts"]
    res.bounds.append({"run": "vptr family " + tier, "complete": len(sums) == 5,
                       "counters": {"programs": 5, "history_depth": int(depth)}})
    res.samples = samples[:8]
    _triage_family(res, "vptr.cpp", cands, run_args=[depth])
    # virtual_ptr / virtual_shared_ptr parameter kinds over all registries of a
    # space, every policy flavour; one process runs thousands of registries in
    # a row, i.e. one long history of re-registrations and updates
    from . import e1
    sp = ("n=1-4,k=1,d=2,shapes=V|W|X;n=1-3,k=2,d=2,shapes=VV|RV|VR|WV|XX;n=1-3,k=3,d=1,shapes=VRP|VVV|PNV"
          if tier == "quick" else
          "n=1-5,k=1,d=2,shapes=V|W|X;n=1-4,k=2,d=2,shapes=VV|RV|VR|WV|XX;n=1-3,k=3,d=2,shapes=VRP|VVV|PNV|RNV|VNR;"
          "n=1-3,k=4,d=1,shapes=VVVV|VRPS")
    runs = [e1.Run(tag, "dispatch", sp, "C01", label="%s/plain/dispatch-virtual_ptr-kinds" % tag)
            for tag in ("ind", "rel", "dbg", "map", "int")]
    e1.execute(res, runs, deadline_total=deadline)


@check("C20")
def c20(res, tier, deadline):
    res.rule = ("program family over the public templates.hpp helpers: for every shape of 1..3 "
                "type lists with lengths 1..3 and a product of <= 6 elements, for both front-end "
                "branches (definition template with / without a `method` member), EVERY subset of "
                "combinations marked not_defined is a distinct instantiation (method + definition "
                "template) in a generated program; large products on both sides of the 512 split "
                "(511, 512, 513, 529 = 23x23, 1025 in thorough; 529 in quick) under patterns "
                "{none, first, last, middle, checkerboard, one row, one column, all}; the not_defined "
                "mark is a direct, indirect, repeated (two sub-objects) or private base. Checked at "
                "run time in each program: the multiset of parameter-class tuples found in the "
                "method's definition catalog equals the defined combinations (+ the catch-all); "
                "after update every combination reaches its own definition (or the catch-all when "
                "not defined); product enumerates row-major; apply_product agrees. Non-trivial = "
                "neither no nor all combinations defined.")
    res.assumptions = ["arity <= 3 type lists (a fourth list only multiplies the product)",
                       "programs are compiled with g++ -O0; the family uses the documented interface only, so a member the compiler rejects (a C++ diagnostic, not a failed compiler run) is reported as a violation: no definition can be registered for it"]
    variants = []
    for (a, b, c_) in _small_shapes():
        for hm in (0, 1):
            variants.append(("ud_%d_%d_%d_%d" % (a, b, c_, hm),
                             ["UD_L1=%d" % a, "UD_L2=%d" % b, "UD_L3=%d" % c_, "HASMETHOD=%d" % hm],
                             "lists %dx%dx%d method_member=%d all subsets" % (a, b, c_, hm)))
    for style in (1, 2, 3):
        for (a, b, c_) in ((2, 2, 0), (3, 0, 0), (1, 2, 3)):
            variants.append(("ud_%d_%d_%d_s%d" % (a, b, c_, style),
                             ["UD_L1=%d" % a, "UD_L2=%d" % b, "UD_L3=%d" % c_, "HASMETHOD=%d" % (style % 2),
                              "MARKSTYLE=%d" % style],
                             "lists %dx%dx%d mark_style=%d all subsets" % (a, b, c_, style)))
    for (a, b, c_) in ((2, 2, 0), (2, 0, 0), (1, 2, 3)):
        variants.append(("ud_%d_%d_%d_two" % (a, b, c_),
                         ["UD_L1=%d" % a, "UD_L2=%d" % b, "UD_L3=%d" % c_, "HASMETHOD=0", "TWOMETHODS=1"],
                         "lists %dx%dx%d two methods in the product, shared definition functions, all subsets" % (a, b, c_)))
    for (a, b, c_) in ((2, 2, 0), (3, 0, 0)):
        variants.append(("ud_%d_%d_%d_mplist" % (a, b, c_),
                         ["UD_L1=%d" % a, "UD_L2=%d" % b, "UD_L3=%d" % c_, "HASMETHOD=0", "OUTERLIST=1"],
                         "lists %dx%dx%d, the method list is an mp_list, all subsets" % (a, b, c_)))
    large = [(23, 23)] if tier == "quick" else [(7, 73), (16, 32), (19, 27), (23, 23), (25, 41)]
    patterns = [0, 7, 4] if tier == "quick" else [0, 1, 2, 3, 4, 5, 6, 7]
    for (a, b) in large:
        for pat in patterns:
            variants.append(("ud_big_%d_%d_p%d" % (a, b, pat),
                             ["UD_L1=%d" % a, "UD_L2=%d" % b, "UD_L3=0", "HASMETHOD=0", "MASKMODE=1",
                              "ONLY_PATTERN=%d" % pat],
                             "lists %dx%d (%d combinations) pattern %d" % (a, b, a * b, pat)))
    cands, samples, sums = _run_family(res, "usedefs.cpp", variants, compile_failure_is_violation=True)
    for s in sums:
        res.states += s["cases"]
        res.traces += s["cases"]
        res.nontrivial += s["nontrivial"]
        res.transitions += s["calls"] + s["facts"]
    res.extra["programs"] = len(variants)
    res.bounds.append({"run": "usedefs family " + tier, "complete": len(sums) == len(variants),
                       "counters": {"binaries": len(variants), "instantiated_programs": res.states}})
    res.samples = samples[:8]
    _triage_family(res, "usedefs.cpp", cands)


def _gen_family(res, tus, extra_flags=(), compile_failure_is_violation=False, variant_tag=""):
    """tus: list of (name, source text, case descriptions): writes, compiles
    and runs generated translation units"""
    d = os.path.join(C.build_dir(_e5_key()), "gen")
    os.makedirs(d, exist_ok=True)
    cands, samples, sums = [], [], []

    def one(tu):
        name, src, descs = tu
        path = os.path.join(d, name + variant_tag + ".cpp")
        exe = os.path.join(d, name + variant_tag)
        if not os.path.exists(exe):
            with open(path, "w") as fh:
                fh.write(src)
            cmd = [small.CXX, "-std=c++17", "-O0", "-w", "-D" + C.GUARD, "-I" + C.INCLUDE, "-I" + E5DIR] + \
                list(extra_flags) + [path, "-o", exe + ".tmp"]
            rc, so, se = C.run_cmd(cmd, timeout=3000)
            if rc:
                return tu, None, se[-2500:], 0
            os.replace(exe + ".tmp", exe)
        rc, so, se, dt = small.run(exe, [], timeout=600)
        return tu, (rc, so, se), "", dt

    with cf.ThreadPoolExecutor(max_workers=C.NCPU) as ex:
        for tu, r, err, dt in ex.map(one, tus):
            name, src, descs = tu
            if r is None:
                if compile_failure_is_violation and _is_cxx_diagnostic(err):
                    cands.append({"case": name, "kind": "does_not_compile", "detail": _first_error(err), "tu": name + variant_tag})
                else:
                    res.harness_errors.append("generated program %s does not compile against %s:\n%s" % (name, C.INCLUDE, err))
                continue
            rc, so, se = r
            c, s, summ = small.parse(so)
            for x in c:
                x["tu"] = name + variant_tag
            if rc != 0 or summ is None:
                cands.append({"case": name + " (" + descs[0] + " ...)", "kind": "crash", "tu": name + variant_tag,
                              "detail": "program ended with %s: %s" % (small.sig_name(rc), (se or so)[-300:])})
            else:
                sums.append(summ)
            cands += c
            samples += s
    return cands, samples, sums, d


def _triage_gen(res, cands, d):
    known = C.load_known()
    seen = set()
    for c in cands:
        c["engine"] = "E5GEN"
        k = C.match_known(known, res.prop, c)
        if k is not None:
            res.known_hits.setdefault(k["id"], (k, c))
            continue
        key_ = c["case"] + "|" + c["detail"][:60]
        if key_ in seen or len(res.confirmed) >= 30:
            continue
        seen.add(key_)
        exe = os.path.join(d, c["tu"])
        if c.get("kind") == "does_not_compile" or not os.path.exists(exe):
            res.confirmed.append(c)
            continue
        rc, so, se, dt = small.run(exe, [], timeout=600)
        again = [x for x in small.parse(so)[0] if x["case"] == c["case"] and x["detail"] == c["detail"]]
        if again or (rc != 0 and c.get("kind") == "crash"):
            c["exe"] = exe
            res.confirmed.append(c)
        else:
            res.harness_errors.append("candidate did not reproduce: %s :: %s" % (c["case"], c["detail"][:200]))


@check("C11")
def c11(res, tier, deadline):
    from . import gen_args
    res.rule = ("generated programs using the macro front end (declare_method / define_method): "
                "F1 = every parameter kind {T&, const T&, T&&, T*, shared_ptr<T>, const shared_ptr<T>&, "
                "virtual_ptr<T>, virtual_shared_ptr<T>} x inheritance shape between the method's and "
                "the definition's class {same, single, second base at an offset, virtual base, two "
                "levels with offsets} x position of the virtual parameter among three; F2 = every "
                "non-virtual companion category {int, tracked by value from rvalue / xvalue / lvalue, "
                "T&, const T&, T&&, move-only by && and by value} x position x return kind {int, void, "
                "reference, object by value}; F3 = smart-pointer / virtual_ptr kinds with tracked "
                "companions. Each method is called with objects of two different most-derived layouts "
                "(1, 2, 1 again). Inside the definition: address of the received sub-object vs the "
                "language's own conversion, most-derived object identity, shared ownership and "
                "reference count restoration, aliasing of reference parameters, values, copy / move "
                "counters (0 copies and <= 1 move for an rvalue). Built against the release and the "
                "debug default policy.")
    res.assumptions = ["a finite grammar of programs; volatile, unique_ptr virtual parameters, user smart pointers are outside it",
                       "expected addresses come from the language's implicit conversions inside the same program"]
    tus = gen_args.translation_units(tier)
    allc, alls = [], []
    d = None
    for tag, flags in (("_rel", ["-DNDEBUG"]), ("_dbg", [])):
        cands, samples, sums, d = _gen_family(res, tus, extra_flags=flags, variant_tag=tag,
                                              compile_failure_is_violation=True)
        for s in sums:
            res.states += s["cases"]
            res.traces += s["cases"]
            res.nontrivial += s["nontrivial"]
            res.transitions += s["facts"]
        for c in cands:
            c["case"] = c["case"] + " policy=" + tag[1:]
        allc += cands
        alls += samples
    res.extra["programs"] = 2 * len(tus)
    res.extra["methods_generated"] = sum(len(t[2]) for t in tus)
    res.bounds.append({"run": "args family " + tier, "complete": True,
                       "counters": {"translation_units": 2 * len(tus), "method_cases": res.states}})
    res.samples = alls[:8]
    # the candidate's own case text was extended: compare on the original
    for c in allc:
        c["orig_case"] = c["case"].rsplit(" policy=", 1)[0]
    known = C.load_known()
    seen = set()
    for c in allc:
        c["engine"] = "E5GEN"
        k = C.match_known(known, res.prop, c)
        if k is not None:
            res.known_hits.setdefault(k["id"], (k, c))
            continue
        key_ = c["case"] + "|" + c["detail"][:60]
        if key_ in seen or len(res.confirmed) >= 30:
            continue
        seen.add(key_)
        exe = os.path.join(d, c["tu"])
        if c.get("kind") == "does_not_compile" or not os.path.exists(exe):
            res.confirmed.append(c)
            continue
        rc, so, se, dt = small.run(exe, [], timeout=600)
        again = [x for x in small.parse(so)[0] if x["case"] == c["orig_case"] and x["detail"] == c["detail"]]
        if again or (rc != 0 and c.get("kind") == "crash"):
            c["exe"] = exe
            res.confirmed.append(c)
        else:
            res.harness_errors.append("candidate did not reproduce: %s :: %s" % (c["case"], c["detail"][:200]))


def gen2_stage(res, stage, tier):
    """compile-time halves of C12 (stage='OFFSETS') and C13 (stage='TABLES'):
    stage 1 writes the generated text, stage 2 is the same program compiled WITH
    it; outputs (every call of the domain) must be identical. A stage-2 compile
    failure is a violation: compilability of the generated text is the property."""
    import tempfile
    combos = []
    compilers = ["g++", "clang++"]
    for dom in range(4):
        for checked in (0, 1):
            for cxx in compilers:
                combos.append((dom, checked, cxx))

    def one(combo):
        dom, checked, cxx = combo
        d = tempfile.mkdtemp(prefix="gen2_", dir=C.build_dir(_e5_key()))
        flags = ["-std=c++17", "-O0", "-w", "-DDOMAIN=%d" % dom, "-I" + C.INCLUDE] + (["-DCHECKED"] if checked else [])
        src = os.path.join(E5DIR, "gen2.cpp")
        desc = "domain %d policy=%s compiler=%s stage2=%s" % (dom, "debug" if checked else "release", cxx, stage)
        try:
            rc, so, se = C.run_cmd([cxx] + flags + [src, "-o", os.path.join(d, "s1")], timeout=1800)
            if rc:
                return desc, "harness", "stage 1 does not compile: " + se[-800:]
            rc, out1, se = C.run_cmd([os.path.join(d, "s1"), d], timeout=300)
            if rc:
                return desc, "viol", "stage 1 (update + generator) ended with %s: %s" % (small.sig_name(rc), se[-300:])
            rc, so, se = C.run_cmd([cxx] + flags + ["-DSTAGE2_" + stage, "-I" + d, src, "-o", os.path.join(d, "s2")], timeout=1800)
            if rc:
                return desc, "viol", "program does not compile with the generated text: " + se[-600:]
            rc, out2, se = C.run_cmd([os.path.join(d, "s2")], timeout=300)
            if rc:
                return desc, "viol", "program compiled with the generated text ended with %s: %s" % (small.sig_name(rc), se[-300:])
            if out1 != out2:
                return desc, "viol", "calls differ: after update [%s] with generated text [%s]" % (out1.strip()[:300], out2.strip()[:300])
            return desc, "ok", str(len(out1.split()))
        finally:
            import shutil
            shutil.rmtree(d, ignore_errors=True)

    ok = 0
    with cf.ThreadPoolExecutor(max_workers=C.NCPU) as ex:
        for desc, verdict, detail in ex.map(one, combos):
            if verdict == "ok":
                ok += 1
                res.states += 1
                res.traces += 1
                res.nontrivial += 1
                res.transitions += int(detail)
            elif verdict == "harness":
                res.harness_errors.append(desc + ": " + detail)
            else:
                c = {"case": desc, "kind": "generated_text", "detail": detail, "engine": "E5GEN2", "stage": stage}
                k = C.match_known(C.load_known(), res.prop, c)
                if k is not None:
                    res.known_hits.setdefault(k["id"], (k, c))
                else:
                    res.confirmed.append(c)
    res.bounds.append({"run": "two-stage programs (stage2=%s)" % stage, "complete": True,
                       "counters": {"pipelines": len(combos), "identical": ok}})
    res.samples.append({"two_stage": "4 real domains x {release, debug} x {g++, clang++}: update+generate, recompile with the generated %s, compare every call" % stage.lower()})


def replay(prop, cand, path):
    if cand.get("engine") == "E5GEN2":
        res = C.Result(prop, "quick")
        gen2_stage(res, cand["stage"], "quick")
        for c in res.confirmed:
            print("CAND", c["case"], c["detail"][:300])
        if any(c["case"] == cand["case"] for c in res.confirmed):
            print("VIOLATION property=%s replay=%s" % (prop, path))
            return 1
        print("not reproduced: property holds on these programs")
        return 0
    if cand.get("engine") == "E5GEN":
        # regenerate and rebuild the family member, run it again
        res = C.Result(prop, "quick")
        CHECKS_FN = {"C11": c11}
        exe = cand.get("exe")
        tu = cand.get("tu", "")
        if prop == "C11":
            from . import gen_args
            tier = "thorough" if "_thorough_" in tu else "quick"
            tus = [t for t in gen_args.translation_units(tier) if tu.startswith(t[0])]
            flags = ["-DNDEBUG"] if tu.endswith("_rel") else []
            cands, samples, sums, d = _gen_family(res, tus, extra_flags=flags, variant_tag=tu[-4:],
                                                  compile_failure_is_violation=True)
            hit = [x for x in cands if x["detail"] == cand["detail"] and x["case"] == cand.get("orig_case")]
            for x in cands[:5]:
                print("CAND", x["case"], x["detail"])
            if hit or any(x.get("kind") in ("crash", "does_not_compile") for x in cands):
                print("VIOLATION property=%s replay=%s" % (prop, path))
                return 1
            print("not reproduced: property holds on this program")
            return 0
        return engines_replay_gen(prop, cand, path)
    if cand.get("engine") == "E5":
        name, defs = cand["variant"]
        binary, err = _compile_variant(cand["src"], name, defs)
        if not binary:
            print(err, file=sys.stderr)
            if cand.get("kind") == "does_not_compile":
                print("VIOLATION property=%s replay=%s" % (prop, path))
                return 1
            return 2
        rc, so, se, dt = small.run(binary, cand.get("run_args", []), timeout=1200)
        sys.stdout.write(so[-3000:])
        again = [x for x in small.parse(so)[0] if x["case"] == cand["case"]]
        if again or rc != 0:
            print("VIOLATION property=%s replay=%s" % (prop, path))
            return 1
        print("not reproduced: property holds on this program")
        return 0
    if cand.get("engine") == "E4":
        res = C.Result(prop, "quick")
        b = _e4_build(res)
        if not b:
            for e in res.harness_errors:
                print(e, file=sys.stderr)
            return 2
        binary = b.get(cand.get("binary", ""), b["sched"])
        env = {"TSAN_OPTIONS": "halt_on_error=1 exitcode=66"} if cand.get("kind") == "tsan" else None
        rc, so, se, dt = small.run(binary, cand["replay_args"], timeout=3000, env=env)
        sys.stdout.write(so[-3000:])
        if rc != 0 or "CAND\t" in so:
            print("VIOLATION property=%s replay=%s" % (prop, path))
            return 1
        print("not reproduced: property holds on this scenario")
        return 0
    eng = {"E3": E3, "E6": E6, "E7": E7, "E2ISO": E2ISO}.get(cand.get("engine"))
    if eng is None:
        print("unknown engine in replay file", file=sys.stderr)
        return 2
    res = C.Result(prop, "quick")
    binary = eng.compile(res)
    if not binary:
        for e in res.harness_errors:
            print(e, file=sys.stderr)
        return 2
    args = cand.get("replay_args") or ["replay", cand["case"]]
    rc, so, se, dt = small.run(binary, args, timeout=3000)
    sys.stdout.write(so[-4000:])
    sys.stderr.write(se[-2000:])
    if cand.get("replay_kind") == "part":
        if any(x["case"] == cand["case"] for x in small.parse(so)[0]):
            print("VIOLATION property=%s replay=%s" % (prop, path))
            return 1
        print("not reproduced: property holds on this part of the exploration")
        return 0
    if rc != 0:
        print("VIOLATION property=%s replay=%s" % (prop, path))
        return 1
    print("not reproduced: property holds on this case")
    return 0
