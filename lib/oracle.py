"""Second, independently written reference model (DESIGN.md 2, "Two oracles").
Parses the textual registries the C++ harness emits and re-derives the expected
outcome of every call and every `next`."""
import itertools
import re

O_NONE, O_AMBIG, O_ERR = -1, -2, -3


class Reg:
    pass


def parse(text):
    r = Reg()
    parts = [p.strip() for p in text.split("|")]
    p = parts[0].split()
    assert p[0] == "P"
    r.n = int(p[1])
    r.up = [int(x) for x in p[2:2 + r.n]]
    r.abstract = int(parts[1].split()[1])
    r.recs = []
    body = parts[2][1:].strip()
    if body:
        for rec in body.split(";"):
            rec = rec.strip()
            head, rest = rec.split(":", 1)
            cls, alias = head.split(".")
            bases, _, balias = rest.partition("@")
            r.recs.append((int(cls), [int(b) for b in bases.split(",") if b != ""]))
    r.meths = []
    body = parts[3][1:].strip()
    if body:
        for m in body.split(";"):
            m = m.strip()
            head, vp, defs = m.split(":", 2)
            shape, arity = head.split(".")
            arity = int(arity)
            vp = [int(x) for x in vp.split("@")[0].split(",")]
            dl = []
            if defs.strip():
                for d in defs.split("/"):
                    dl.append([int(x) for x in d.split("@")[0].split(",")])
            r.meths.append({"shape": int(shape), "arity": arity, "vp": vp, "defs": dl})
    return r


def ancestors(r):
    """reflexive-transitive base relation recomputed from the poset words"""
    anc = []
    for d in range(r.n):
        s = {d}
        for b in range(r.n):
            if r.up[d] >> b & 1:
                s.add(b)
        anc.append(s)
    # close transitively (the harness promises closure; do not rely on it)
    changed = True
    while changed:
        changed = False
        for d in range(r.n):
            for b in list(anc[d]):
                if not anc[b] <= anc[d]:
                    anc[d] |= anc[b]
                    changed = True
    return anc


def dominates(anc, d, e):
    """d more specific than e: somewhere properly derived, nowhere properly base"""
    better = False
    for x, y in zip(d, e):
        if x != y and y in anc[x]:
            better = True
        elif x != y and x in anc[y]:
            return False
    return better


def pick(anc, defs, cands):
    if not cands:
        return O_NONE
    for i in cands:
        if all(i == j or dominates(anc, defs[i], defs[j]) for j in cands):
            return i
    return O_AMBIG


def expected_call(anc, m, args):
    cands = [i for i, d in enumerate(m["defs"])
             if all(dc in anc[a] for a, dc in zip(args, d))]
    return pick(anc, m["defs"], cands)


def expected_next(anc, m, di):
    d = m["defs"][di]
    cands = []
    for j, e in enumerate(m["defs"]):
        if j == di:
            continue
        if all(y in anc[x] for x, y in zip(d, e)) and any(x != y for x, y in zip(d, e)):
            cands.append(j)
    return pick(anc, m["defs"], cands)


_call_re = re.compile(r"m(\d+)\(([\d,]+)\)=(-?\d+)/(-?\d+)")
_next_re = re.compile(r"n(\d+)\.(\d+)=(-?\d+)")


def check_dump(reg_text, obs_text, props):
    """returns '' if every observation equals this model's expectation"""
    try:
        r = parse(reg_text)
    except Exception as e:  # malformed line (e.g. truncated by a crash)
        return ""
    anc = ancestors(r)
    bad = []
    for mi, args, ran, resolved in _call_re.findall(obs_text):
        m = r.meths[int(mi)]
        a = [int(x) for x in args.split(",")]
        e = expected_call(anc, m, a)
        if int(ran) != e or int(resolved) != e:
            bad.append("m%s(%s): python oracle expects %d, observed ran=%s resolved=%s"
                       % (mi, args, e, ran, resolved))
    if "C03" in props:
        for mi, di, got in _next_re.findall(obs_text):
            m = r.meths[int(mi)]
            e = expected_next(anc, m, int(di))
            if int(got) != e:
                bad.append("next of m%s.%s: python oracle expects %d, observed %s" % (mi, di, e, got))
    return "; ".join(bad[:3])


_detail_re = re.compile(r"m=(\d+) .*?args=\(([\d,]+)\) expected=(-?\d+)")
_next_detail_re = re.compile(r"m=(\d+) def=(\d+) expected=(-?\d+)")


def check_candidate(c):
    """the C++ oracle's 'expected' quoted in a candidate must be this model's"""
    try:
        r = parse(c["case"])
    except Exception:
        return ""
    anc = ancestors(r)
    mm = _detail_re.search(c["detail"])
    if mm and c["kind"] in ("wrong_definition", "definition_ran_for_error_cell",
                            "bad_error_report", "wrong_arguments"):
        m = r.meths[int(mm.group(1))]
        a = [int(x) for x in mm.group(2).split(",")]
        e = expected_call(anc, m, a)
        if e != int(mm.group(3)):
            return "C++ oracle expects %s, python oracle %d" % (mm.group(3), e)
    mm = _next_detail_re.search(c["detail"])
    if mm and c["kind"] == "wrong_next":
        m = r.meths[int(mm.group(1))]
        e = expected_next(anc, m, int(mm.group(2)))
        if e != int(mm.group(3)):
            return "C++ oracle expects next %s, python oracle %d" % (mm.group(3), e)
    return ""
