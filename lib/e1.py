"""Engine E1 `regx`: drives the C++ registry explorer (e1/*.hpp) built against
the current /repo/include. See DESIGN.md 2.1."""
import concurrent.futures as cf
import json
import os
import time

from . import common as C
from . import oracle

E1 = os.path.join(C.VERIF, "e1")
CXX = os.environ.get("VERIF_CXX", "g++")

VARIANTS = {
    # name: flags
    "plain": ["-O1", "-DNDEBUG"],
    "assert": ["-O1"],
    "asan": ["-O1", "-g", "-fsanitize=address,undefined",
             "-fno-sanitize-recover=all", "-fno-omit-frame-pointer"],
}


class Run:
    def __init__(self, tag, driver, space, props="", variant="plain", extra="",
                 shards=None, dump_mod=0, label=None, nshapes=None):
        self.tag, self.driver, self.space, self.props = tag, driver, space, props
        self.variant, self.extra = variant, extra
        self.shards = shards or C.NCPU
        self.dump_mod = dump_mod
        self.label = label or ("%s/%s/%s" % (tag, variant, driver))
        self.nshapes = nshapes


def sources_key():
    return C.tree_hash([E1], "e1")


_key = None


def key():
    global _key
    if _key is None:
        _key = sources_key()
    return _key


def binary_path(tag, variant):
    return os.path.join(C.build_dir(key()), "regx_%s_%s" % (tag, variant))


def compile_one(tag, variant):
    out = binary_path(tag, variant)
    if os.path.exists(out):
        return out, 0.0, ""
    t0 = time.time()
    tmp = out + ".tmp%d" % os.getpid()
    cmd = [CXX, "-std=c++17", "-w", "-DTAG_" + tag, "-D" + C.GUARD,
           "-I" + C.INCLUDE, os.path.join(E1, "main.cpp"), "-o", tmp] + VARIANTS[variant]
    rc, so, se = C.run_cmd(cmd, timeout=1800)
    if rc != 0:
        return None, time.time() - t0, se[-4000:]
    os.replace(tmp, out)
    return out, time.time() - t0, ""


def build_all(runs, res):
    need = sorted({(r.tag, r.variant) for r in runs})
    ok = True
    with cf.ThreadPoolExecutor(max_workers=C.NCPU) as ex:
        futs = {ex.submit(compile_one, t, v): (t, v) for t, v in need}
        for f in cf.as_completed(futs):
            t, v = futs[f]
            out, dt, err = f.result()
            if out is None:
                ok = False
                res.harness_errors.append(
                    "compile of harness %s/%s failed against %s:\n%s" % (t, v, C.INCLUDE, err))
    C.prune_build({key()})
    return ok


def _shard_cmd(run, shard, outfile, deadline):
    cmd = [binary_path(run.tag, run.variant), "--driver", run.driver,
           "--space", run.space, "--shard", "%d/%d" % (shard, run.shards),
           "--out", outfile]
    if run.props:
        cmd += ["--props", run.props]
    if run.extra:
        cmd += ["--extra", run.extra]
    if run.dump_mod:
        cmd += ["--dump-mod", str(run.dump_mod)]
    if deadline:
        cmd += ["--deadline", "%.0f" % deadline]
    return cmd


ASAN_ENV = {"ASAN_OPTIONS": "detect_leaks=0:abort_on_error=1:allocator_may_return_null=1",
            "UBSAN_OPTIONS": "halt_on_error=1:abort_on_error=1:print_stacktrace=0"}


def run_shard(run, shard, outdir, t_end):
    deadline = max(2.0, t_end - time.time()) if t_end else None
    safe = "".join(ch if ch.isalnum() else "_" for ch in run.label)
    outfile = os.path.join(outdir, "%s_%d.txt" % (safe, shard))
    cmd = _shard_cmd(run, shard, outfile, deadline)
    t0 = time.time()
    rc, so, se = C.run_cmd(cmd, env=ASAN_ENV)
    return run, shard, rc, outfile, se[-2000:], time.time() - t0


def parse_out(path):
    cands, dumps, samples, summary = [], [], [], None
    if not os.path.exists(path):
        return cands, dumps, samples, summary
    for line in open(path, errors="replace"):
        line = line.rstrip("\n")
        if line.startswith("CAND\t"):
            p = line.split("\t")
            if len(p) >= 4:
                cands.append({"kind": p[1], "case": p[2], "detail": p[3],
                              "index": int(p[4]) if len(p) > 4 and p[4].lstrip("-").isdigit() else -1})
        elif line.startswith("DUMP\t"):
            p = line.split("\t")
            if len(p) >= 3:
                dumps.append((p[1], p[2]))
        elif line.startswith("SAMPLE\t"):
            samples.append(line.split("\t", 1)[1])
        elif line.startswith("SUMMARY\t"):
            try:
                summary = json.loads(line.split("\t", 1)[1])
            except ValueError:
                summary = None
    return cands, dumps, samples, summary


def replay_once(cand):
    cmd = [binary_path(cand["tag"], cand["variant"]), "--driver", cand["driver"],
           "--replay", cand["case"]]
    if cand.get("props"):
        cmd += ["--props", cand["props"]]
    if cand.get("space"):
        cmd += ["--space", cand["space"]]
    extra = cand.get("extra") or ""
    if cand.get("driver") == "unknown":
        import re
        m = re.match(r"omit=(\d+)", cand.get("detail", ""))
        if m:
            extra = (extra + "," if extra else "") + "omit=" + m.group(1)
    if extra:
        cmd += ["--extra", extra]
    try:
        rc, so, se = C.run_cmd(cmd, timeout=300, env=ASAN_ENV)
    except Exception as e:  # timeout
        return 124, "", str(e)
    return rc, so, se


def prefix_replay_once(cand):
    """re-runs the candidate's shard from its first case up to and including
    the candidate's case, in a fresh process (history-dependent failures)"""
    import tempfile
    outdir = tempfile.mkdtemp(prefix="prefix_", dir=C.build_dir(key()))
    outfile = os.path.join(outdir, "out.txt")
    cmd = [binary_path(cand["tag"], cand["variant"]), "--driver", cand["driver"],
           "--space", cand["space"], "--shard", cand["shard"], "--out", outfile,
           "--only-until", str(cand["index"]), "--max-cands", "100000000"]
    if cand.get("props"):
        cmd += ["--props", cand["props"]]
    if cand.get("extra"):
        cmd += ["--extra", cand["extra"]]
    try:
        rc, so, se = C.run_cmd(cmd, timeout=1800, env=ASAN_ENV)
    except Exception:
        return False
    cands, _d, _s, _sum = parse_out(outfile)
    try:
        os.remove(outfile)
        os.rmdir(outdir)
    except OSError:
        pass
    ok = any(c["kind"] == cand["kind"] and c["case"] == cand["case"] and c["index"] == cand["index"]
             for c in cands)
    if not ok and os.environ.get("VERIF_DEBUG"):
        with open("/tmp/prefix_debug.log", "a") as fh:
            fh.write("CMD %r\nRC %s\nERR %s\nCANDS %r\nWANT %r\n\n" % (cmd, rc, se[-300:], cands[:3], (cand["kind"], cand["case"], cand["index"])))
    return ok


def confirm(cand):
    """a candidate is reported only if it reproduces identically, twice, in
    fresh processes"""
    r1 = replay_once(cand)
    r2 = replay_once(cand)
    viol1 = sorted(l for l in r1[1].splitlines() if l.startswith("VIOL\t"))
    viol2 = sorted(l for l in r2[1].splitlines() if l.startswith("VIOL\t"))
    bad1 = r1[0] != 0
    bad2 = r2[0] != 0
    if bad1 and bad2 and viol1 == viol2 and r1[0] == r2[0] and r1[0] != 2:
        cand["replay_rc"] = r1[0]
        cand["replay_output"] = (r1[1] + r1[2])[-1500:]
        return "confirmed"
    if not bad1 and not bad2:
        # not reproducible on its own: does it depend on the cases before it?
        if cand.get("index", -1) >= 0 and prefix_replay_once(cand) and prefix_replay_once(cand):
            cand["replay_kind"] = "prefix"
            return "confirmed"
        return "not_reproduced"
    return "unstable"


def execute(res, runs, space_note="", deadline_total=None, max_confirm=40,
            second_oracle=True):
    """Builds, runs every (run, shard) task on a pool, aggregates, confirms
    candidates by replay and fills `res`."""
    if not build_all(runs, res):
        return
    outdir = os.path.join(C.build_dir(key()), "run_%s_%s_%d" % (res.prop, res.tier, os.getpid()))
    os.makedirs(outdir, exist_ok=True)
    known = C.load_known()
    t_start = time.time()
    tasks = []
    for r in runs:
        for s in range(r.shards):
            tasks.append((r, s))
    per_run = {}
    raw_cands = []
    disagreements = 0
    oracle_checked = 0
    with cf.ThreadPoolExecutor(max_workers=C.NCPU) as ex:
        futs = []
        for r, s in tasks:
            t_end = (t_start + deadline_total) if deadline_total else None
            futs.append(ex.submit(run_shard, r, s, outdir, t_end))
        for f in cf.as_completed(futs):
            run, shard, rc, outfile, err, dt = f.result()
            cands, dumps, samples, summary = parse_out(outfile)
            pr = per_run.setdefault(run.label, {"counters": {}, "wall_s": 0.0, "run": run,
                                                "deadline_hit": 0, "shards": 0})
            pr["shards"] += 1
            pr["wall_s"] = max(pr["wall_s"], dt)
            if rc != 0 or summary is None:
                res.harness_errors.append(
                    "harness %s shard %d exited %d without summary: %s" % (run.label, shard, rc, err))
                continue
            for k, v in summary.items():
                if isinstance(v, (int, float)) and k != "wall_s":
                    pr["counters"][k] = pr["counters"].get(k, 0) + v
            if summary.get("deadline_hit"):
                pr["deadline_hit"] = 1
            for c in cands:
                c.update({"tag": run.tag, "variant": run.variant, "driver": run.driver,
                          "props": run.props, "space": run.space, "extra": run.extra,
                          "shard": "%d/%d" % (shard, run.shards)})
                raw_cands.append(c)
            if shard == 0:
                for s_ in samples[:3]:
                    res.samples.append({"run": run.label, "registry": s_})
            if second_oracle and dumps:
                for reg, obs in dumps:
                    oracle_checked += 1
                    bad = oracle.check_dump(reg, obs, run.props)
                    if bad:
                        # the C++ harness did not flag it, the python oracle does
                        flagged = any(c["case"] == reg for c in cands)
                        truncated = summary.get("candidates", 0) > len(cands)
                        if not flagged and not truncated:
                            disagreements += 1
                            res.harness_errors.append(
                                "oracle disagreement on %s: %s" % (reg, bad))
            try:
                os.remove(outfile)
            except OSError:
                pass
    try:
        os.rmdir(outdir)
    except OSError:
        pass

    for label, pr in sorted(per_run.items()):
        c = pr["counters"]
        res.add_counters({label + ":" + k: v for k, v in c.items()
                          if k in ("registries", "updates", "calls", "candidates", "crashes",
                                   "permutations", "abort_children", "histories")})
        regs = c.get("registries", 0) or c.get("states", 0)
        res.states += regs
        res.traces += regs
        res.nontrivial += c.get("nontrivial", 0)
        res.transitions += c.get("updates", 0) + c.get("calls", 0) + c.get("registrations", 0) \
            + c.get("transitions", 0) \
            + c.get("walks", 0) + c.get("report_fields", 0) + c.get("encodings", 0) \
            + c.get("decodes", 0) + c.get("generator_runs", 0)
        complete = not pr["deadline_hit"]
        if not complete:
            res.exhaustive = False
        res.bounds.append({"run": label, "space": pr["run"].space, "props": pr["run"].props,
                           "complete": complete, "wall_s": round(pr["wall_s"], 2),
                           "counters": c})
    res.extra["case_format"] = ("registry text: 'P n m0..m(n-1)' classes 0..n-1, mi = bit set of the proper (transitive) bases of class i | "
                                "'A mask' abstract classes | 'R cls.alias:listed bases@alias bits ; ...' class records in registration order | "
                                "'M shape.arity:parameter classes@alias:definition tuples separated by /' methods in registration order "
                                "(shape = index into e1/shapes.inc: R virtual_<T&>, N int, P pointer, S shared_ptr, C const shared_ptr&, V virtual_ptr, W virtual_shared_ptr, X const virtual_ptr&); "
                                "history text 'H ops': a-e toggle class records, m n methods, w-z definitions, U update")
    res.extra["second_oracle_cases"] = oracle_checked
    res.extra["second_oracle_disagreements"] = disagreements

    # triage candidates: known findings first, then confirm by replay
    todo = []
    seen = set()
    for c in raw_cands:
        k = C.match_known(known, res.prop, c)
        if k is not None:
            res.known_hits.setdefault(k["id"], (k, c))
            continue
        sig = (c["tag"], c["variant"], c["driver"], c["kind"], c["case"])
        if sig in seen:
            continue
        seen.add(sig)
        todo.append(c)
    res.extra["candidates_total"] = len(raw_cands)
    res.extra["candidates_distinct_unlisted"] = len(todo)
    # smallest first: fewer classes, shorter text
    todo.sort(key=lambda c: (len(c["case"]), c["case"]))
    todo = todo[:max_confirm]
    if todo:
        with cf.ThreadPoolExecutor(max_workers=C.NCPU) as ex:
            for c, verdict in zip(todo, ex.map(confirm, todo)):
                if verdict == "confirmed":
                    # second oracle on the candidate itself
                    if second_oracle and c["driver"] == "dispatch":
                        why = oracle.check_candidate(c)
                        if why:
                            res.harness_errors.append(
                                "oracles disagree on candidate %s: %s" % (c["case"], why))
                            continue
                    res.confirmed.append(c)
                elif verdict == "not_reproduced":
                    res.harness_errors.append(
                        "candidate did not reproduce in a fresh process: [%s] %s :: %s (run %s shard %s index %s)"
                        % (c["kind"], c["case"], c["detail"][:200], c.get("extra"), c.get("shard"), c.get("index")))
                else:
                    res.harness_errors.append(
                        "candidate reproduced inconsistently: [%s] %s" % (c["kind"], c["case"]))
