// gen2.cpp - engine E5, two-stage program family for the compile-time halves of
// C12 and C13. One source, -DDOMAIN=0..3 selects real classes / methods:
//   stage 1 (default): update, write <out>/slots.hpp (forward declarations +
//       static offsets) and <out>/tables.hpp (encoded dispatch data), print the
//       result of every call;
//   -DSTAGE2_OFFSETS: the same program compiled WITH the generated slots.hpp
//       (constexpr static offsets), update, print the result of every call;
//   -DSTAGE2_TABLES: the same program compiled with the generated tables.hpp,
//       decode instead of update, print the result of every call.
// The three outputs must be identical. -DCHECKED selects the debug policy
// (which cross-checks static offsets at every call).
#include <string>
#include <yorel/yomm2/policy.hpp>

#ifdef CHECKED
struct gen_policy : yorel::yomm2::policy::debug::rebind<gen_policy>::replace<
                        yorel::yomm2::policy::error_handler,
                        yorel::yomm2::policy::throw_error> {};
#else
struct gen_policy : yorel::yomm2::policy::release::rebind<gen_policy>::replace<
                        yorel::yomm2::policy::error_handler,
                        yorel::yomm2::policy::throw_error> {};
#endif
#define YOMM2_DEFAULT_POLICY gen_policy

#include <yorel/yomm2/keywords.hpp>

#ifdef STAGE2_OFFSETS
#include "slots.hpp"
#endif

#include <cstdio>
#include <fstream>
#include <iostream>
#include <sstream>
#include <vector>

#ifndef DOMAIN
#define DOMAIN 0
#endif

struct Pad {
    virtual ~Pad() {
    }
    long pad = 0;
};

#if DOMAIN == 0
// chain, arity 1 and 2
struct Animal {
    virtual ~Animal() {
    }
};
struct Dog : Animal {};
struct Bulldog : Dog {};
struct Cat : Animal {};
register_classes(Animal, Dog, Bulldog, Cat);
declare_method(int, kick, (virtual_<Animal&>));
declare_method(int, meet, (virtual_<Animal&>, int, virtual_<Animal&>));
define_method(int, kick, (Dog&)) {
    return 1;
}
define_method(int, kick, (Bulldog&)) {
    return 2;
}
define_method(int, meet, (Dog&, int x, Cat&)) {
    return 10 + x;
}
define_method(int, meet, (Animal&, int x, Animal&)) {
    return 20 + x;
}
define_method(int, meet, (Bulldog&, int x, Dog&)) {
    return 30 + x;
}
#define OBJECTS Animal o0; Dog o1; Bulldog o2; Cat o3; Animal* objs[] = {&o0, &o1, &o2, &o3};
#define NOBJ 4
#define CALLS1(a) out(kick(*objs[a]))
#define CALLS2(a, b) out(meet(*objs[a], 5, *objs[b]))
#define CALLS3(a, b, c)
#elif DOMAIN == 1
// multiple inheritance, a second root at a non-zero offset, arity 1..3
struct Animal {
    virtual ~Animal() {
    }
};
struct Property {
    virtual ~Property() {
    }
    int value = 7;
};
struct Cat : Animal {};
struct Dog : Animal {};
struct DomesticCat : Cat, Property {};
struct DomesticDog : Dog, Property {};
register_classes(Animal, Cat, Dog, Property, DomesticCat, DomesticDog);
declare_method(int, kick, (virtual_<Animal&>));
declare_method(int, identify, (virtual_<Property&>));
declare_method(int, meet, (virtual_<Animal&>, virtual_<Animal&>));
declare_method(int, trio, (virtual_<Animal&>, virtual_<Property&>, virtual_<Animal&>));
define_method(int, kick, (Cat&)) {
    return 1;
}
define_method(int, kick, (Dog&)) {
    return 2;
}
define_method(int, identify, (DomesticCat&)) {
    return 3;
}
define_method(int, identify, (Property&)) {
    return 4;
}
define_method(int, meet, (Dog&, Cat&)) {
    return 5;
}
define_method(int, meet, (DomesticDog&, DomesticCat&)) {
    return 6;
}
define_method(int, trio, (Dog&, Property&, Cat&)) {
    return 7;
}
define_method(int, trio, (Animal&, DomesticDog&, Animal&)) {
    return 8;
}
define_method(int, trio, (DomesticCat&, DomesticCat&, DomesticCat&)) {
    return 9;
}
#define OBJECTS Animal o0; Cat o1; Dog o2; DomesticCat o3; DomesticDog o4; \
    Animal* objs[] = {&o0, &o1, &o2, &o3, &o4}; Property* props[] = {&o3, &o4, &o3, &o4, &o3};
#define NOBJ 5
#define CALLS1(a) out(kick(*objs[a])); out(identify(*props[a]))
#define CALLS2(a, b) out(meet(*objs[a], *objs[b]))
#define CALLS3(a, b, c) out(trio(*objs[a], *props[b], *objs[c]))
#elif DOMAIN == 2
// classes that no method uses, a class whose v-table does not start at slot 0,
// arity 4 with non-virtual parameters in between
struct Unused {
    virtual ~Unused() {
    }
};
struct AlsoUnused : Unused {};
struct X {
    virtual ~X() {
    }
};
struct Y {
    virtual ~Y() {
    }
};
struct XY : X, Y {};
struct Z : XY {};
register_classes(Unused, AlsoUnused);
register_classes(X, XY);
register_classes(Y, XY);
register_classes(XY, Z);
declare_method(int, fx, (virtual_<X&>));
declare_method(int, fy, (int, virtual_<Y&>));
declare_method(int, fxy, (virtual_<XY&>, virtual_<X&>));
declare_method(int, quad, (virtual_<X&>, int, virtual_<Y&>, virtual_<X&>, double, virtual_<Y&>));
define_method(int, fx, (X&)) {
    return 1;
}
define_method(int, fx, (Z&)) {
    return 2;
}
define_method(int, fy, (int x, XY&)) {
    return 3 + x;
}
define_method(int, fxy, (XY&, XY&)) {
    return 4;
}
define_method(int, fxy, (Z&, X&)) {
    return 5;
}
define_method(int, quad, (XY&, int a, XY&, X&, double, Y&)) {
    return 60 + a;
}
define_method(int, quad, (Z&, int a, Y&, Z&, double, XY&)) {
    return 70 + a;
}
#define OBJECTS X o0; XY o1; Z o2; Y o3; X* objs[] = {&o0, &o1, &o2}; Y* ys[] = {&o3, &o1, &o2}; \
    XY* xys[] = {&o1, &o2, &o1};
#define NOBJ 3
#define CALLS1(a) out(fx(*objs[a])); out(fy(1, *ys[a]))
#define CALLS2(a, b) out(fxy(*xys[a], *objs[b])); out(quad(*objs[a], 2, *ys[b], *objs[b], 1.5, *ys[a]))
#define CALLS3(a, b, c)
#else
// many classes, few methods
struct R {
    virtual ~R() {
    }
};
struct A1 : R {};
struct A2 : R {};
struct A3 : R {};
struct B1 : A1 {};
struct B2 : A1 {};
struct B3 : A2 {};
struct C1 : B1 {};
struct C2 : B3 {};
struct C3 : B3 {};
struct S {
    virtual ~S() {
    }
};
struct S1 : S {};
register_classes(R, A1, A2, A3, B1, B2, B3, C1, C2, C3);
register_classes(S, S1);
declare_method(int, f, (virtual_<R&>));
declare_method(int, g, (virtual_<B3&>, virtual_<A1&>));
define_method(int, f, (A1&)) {
    return 1;
}
define_method(int, f, (C2&)) {
    return 2;
}
define_method(int, g, (C2&, B1&)) {
    return 3;
}
define_method(int, g, (B3&, A1&)) {
    return 4;
}
#define OBJECTS R o0; A1 o1; A2 o2; A3 o3; B1 o4; B2 o5; B3 o6; C1 o7; C2 o8; C3 o9; \
    R* objs[] = {&o0, &o1, &o2, &o3, &o4, &o5, &o6, &o7, &o8, &o9}; \
    B3* b3s[] = {&o6, &o8, &o9, &o6, &o8, &o9, &o6, &o8, &o9, &o6}; \
    A1* a1s[] = {&o1, &o4, &o5, &o7, &o1, &o4, &o5, &o7, &o1, &o4};
#define NOBJ 10
#define CALLS1(a) out(f(*objs[a]))
#define CALLS2(a, b) out(g(*b3s[a], *a1s[b]))
#define CALLS3(a, b, c)
#endif

#ifndef STAGE2_OFFSETS
#ifndef STAGE2_TABLES
#include <yorel/yomm2/generator.hpp>
#endif
#endif
#ifdef STAGE2_TABLES
#include <yorel/yomm2/decode.hpp>
#endif

static std::ostringstream g_results;
template<class F>
static void guarded(F&& f) {
    try {
        g_results << f() << " ";
    } catch (const yorel::yomm2::resolution_error& e) {
        g_results << (e.status == yorel::yomm2::resolution_error::ambiguous ? "amb " : "none ");
    } catch (const yorel::yomm2::static_slot_error&) {
        g_results << "SLOT_ERROR ";
    } catch (const yorel::yomm2::static_stride_error&) {
        g_results << "STRIDE_ERROR ";
    } catch (const yorel::yomm2::unknown_class_error&) {
        g_results << "UNKNOWN_CLASS ";
    }
}
#define out(expr) guarded([&] { return expr; })

int main(int argc, char** argv) {
    using namespace yorel::yomm2;
    std::string dir = argc > 1 ? argv[1] : ".";
#ifdef STAGE2_TABLES
    {
#include "tables.hpp"
    }
#else
    auto compiler = update<gen_policy>();
#endif
#if !defined(STAGE2_OFFSETS) && !defined(STAGE2_TABLES)
    {
        generator gen;
        std::ofstream slots(dir + "/slots.hpp");
        gen.add_forward_declarations<gen_policy>().write_forward_declarations(slots);
        gen.write_static_offsets<gen_policy>(slots);
        std::ofstream tables(dir + "/tables.hpp");
        generator::encode_dispatch_data(compiler, "gen_policy", tables);
    }
#endif
    OBJECTS
    for (int a = 0; a < NOBJ; ++a) {
        CALLS1(a);
        for (int b = 0; b < NOBJ; ++b) {
            CALLS2(a, b);
            for (int c = 0; c < NOBJ; ++c) {
                CALLS3(a, b, c);
            }
        }
    }
    std::cout << g_results.str() << "\n";
    return 0;
}
