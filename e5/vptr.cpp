// vptr.cpp - engine E5, program family for C09: one compilation = one real
// C++ class lattice (-DLATTICE=0..3); inside, four policies x every pointee
// class x every static class x every construction route x every definition
// subset, and an exhaustive exploration of short histories
// (definitions toggled / update / pointer creation / calls through existing
// pointers) for the "valid until / across update" clause.
#include <yorel/yomm2/core.hpp>

#include <csignal>
#include <cstdio>
#include <cstring>
#include <functional>
#include <memory>
#include <optional>
#include <string>
#include <vector>
#include <unistd.h>

using namespace yorel::yomm2;
namespace d = yorel::yomm2::detail;

#ifndef LATTICE
#define LATTICE 0
#endif

struct Pad {
    virtual ~Pad() {
    }
    long pad[3] = {};
};

#if LATTICE == 0 // chain
struct K0 {
    virtual ~K0() {
    }
};
struct K1 : K0 {};
struct K2 : K1 {};
struct K3 : K2 {};
constexpr int PARENTS[4][2] = {{-1, -1}, {0, -1}, {1, -1}, {2, -1}};
#define LATNAME "chain"
#elif LATTICE == 1 // tree
struct K0 {
    virtual ~K0() {
    }
};
struct K1 : K0 {};
struct K2 : K0 {};
struct K3 : K1 {};
constexpr int PARENTS[4][2] = {{-1, -1}, {0, -1}, {0, -1}, {1, -1}};
#define LATNAME "tree"
#elif LATTICE == 2 // diamond with a virtual base
struct K0 {
    virtual ~K0() {
    }
};
struct K1 : virtual K0 {};
struct K2 : virtual K0 {};
struct K3 : K1, K2 {};
constexpr int PARENTS[4][2] = {{-1, -1}, {0, -1}, {0, -1}, {1, 2}};
#define LATNAME "diamond"
#elif LATTICE == 4 // an abstract class in the middle; constructors and destructors dispatch
struct K0;
static void (*g_life_hook)(K0&, int, bool) = nullptr;
struct K0 {
    K0() {
        if (g_life_hook)
            g_life_hook(*this, 0, true);
    }
    virtual ~K0() {
        if (g_life_hook)
            g_life_hook(*this, 0, false);
    }
};
struct K1 : K0 {};
struct K2 : K0 {
    K2() {
        if (g_life_hook)
            g_life_hook(*this, 2, true);
    }
    ~K2() {
        if (g_life_hook)
            g_life_hook(*this, 2, false);
    }
    virtual void pure() = 0;
};
struct K3 : K2 {
    K3() {
        if (g_life_hook)
            g_life_hook(*this, 3, true);
    }
    ~K3() {
        if (g_life_hook)
            g_life_hook(*this, 3, false);
    }
    void pure() override {
    }
};
constexpr int PARENTS[4][2] = {{-1, -1}, {0, -1}, {0, -1}, {2, -1}};
#define LATNAME "abstract-middle"
#define HAS_LIFE_HOOK 1
#else // the root is a second base at a non-zero offset
struct K0 {
    virtual ~K0() {
    }
    int root = 0;
};
struct K1 : Pad, K0 {};
struct K2 : K1 {
    long more = 0;
};
struct K3 : Pad, K0 {
    long other[2] = {};
};
constexpr int PARENTS[4][2] = {{-1, -1}, {0, -1}, {1, -1}, {0, -1}};
#define LATNAME "offset"
#endif

constexpr bool le(int dcls, int b) {
    if (dcls == b)
        return true;
    if (dcls < 0)
        return false;
    return le(PARENTS[dcls][0], b) || le(PARENTS[dcls][1], b);
}

template<int I>
struct cls;
template<>
struct cls<0> {
    using type = K0;
};
template<>
struct cls<1> {
    using type = K1;
};
template<>
struct cls<2> {
    using type = K2;
};
template<>
struct cls<3> {
    using type = K3;
};
template<int I>
using cls_t = typename cls<I>::type;

// a group of unrelated classes whose registration can come and go (a plug-in):
// makes the hash table size and multiplier change between updates
struct XR {
    virtual ~XR() {
    }
};
template<int I>
struct XK : XR {};

struct PD : policy::release::rebind<PD> {};
struct PC : policy::debug::rebind<PC> {};
struct PM : policy::basic_policy<
                PM, policy::std_rtti, policy::vptr_map<PM>, policy::vectored_error<PM>> {};
struct PI : policy::basic_policy<
                PI, policy::std_rtti, policy::fast_perfect_hash<PI>, policy::vptr_vector<PI>,
                policy::basic_indirect_vptr<PI>, policy::vectored_error<PI>> {};

// the indirect facet added by plain inheritance to a stock policy
struct PJ : policy::release::rebind<PJ>, policy::basic_indirect_vptr<PJ> {};

struct Thrown {
    int status;
};

static long g_cases = 0, g_facts = 0, g_nontrivial = 0, g_histories = 0;
static std::vector<std::string> g_cands, g_samples;
static std::string g_where;
static void fail(const std::string& what) {
    if (g_cands.size() < 40)
        g_cands.push_back(g_where + "\t" + what);
}

static const void* g_expect_addr = nullptr; // what get() must return inside a definition
static bool g_addr_ok = true;
static int g_nested = -100; // result of a second call made inside a definition

template<class P>
struct W {
    // what the policy IS, independently of how the library's own trait answers
    static constexpr bool indirect = std::is_base_of_v<policy::indirect_vptr, P>;
    struct kr;
    struct kv;
    struct kc;
    struct ks;
    struct k2r;
    struct k2m;
    struct kn;
    struct kkv;
    struct kks;
    // const-qualified pointees
    using Mkv = method<kkv, int(virtual_ptr<const K0, P>), P>;
    using Mks = method<kks, int(virtual_ptr<std::shared_ptr<const K0>, P>), P>;
    using Mr = method<kr, int(virtual_<K0&>), P>;
    using Mv = method<kv, int(virtual_ptr<K0, P>), P>;
    using Mc = method<kc, int(const virtual_ptr<K0, P>&), P>;
    using Ms = method<ks, int(virtual_ptr<std::shared_ptr<K0>, P>), P>;
    using M2r = method<k2r, int(virtual_<K0&>, virtual_<K0&>), P>;
    using M2m = method<k2m, int(virtual_ptr<K0, P>, virtual_<K0&>), P>;
    using Mn = method<kn, int(virtual_ptr<K0, P>), P>; // called from inside dv<>

    template<int I>
    static int dr(cls_t<I>&) {
        return I;
    }
    template<int I>
    static int dn(virtual_ptr<cls_t<I>, P>) {
        return I;
    }
    template<int I>
    static int dv(virtual_ptr<cls_t<I>, P> p) {
        if (g_expect_addr && (const void*)static_cast<const K0*>(p.get()) != g_expect_addr)
            g_addr_ok = false;
        // the pointer a definition receives is a virtual_ptr like any other:
        // a second call through it dispatches on the pointee's class
        if (g_expect_addr)
            g_nested = guarded([&] { return Mn::fn(p); });
        return I;
    }
    template<int I>
    static int dc(const virtual_ptr<cls_t<I>, P>& p) {
        if (g_expect_addr && (const void*)static_cast<const K0*>(p.get()) != g_expect_addr)
            g_addr_ok = false;
        return I;
    }
    template<int I>
    static int ds(virtual_ptr<std::shared_ptr<cls_t<I>>, P> p) {
        if (g_expect_addr && (const void*)static_cast<const K0*>(p.get().get()) != g_expect_addr)
            g_addr_ok = false;
        return I;
    }
    template<int I>
    static int dkv(virtual_ptr<const cls_t<I>, P> p) {
        if (g_expect_addr && (const void*)static_cast<const K0*>(p.get()) != g_expect_addr)
            g_addr_ok = false;
        return I;
    }
    template<int I>
    static int dks(virtual_ptr<std::shared_ptr<const cls_t<I>>, P> p) {
        if (g_expect_addr && (const void*)static_cast<const K0*>(p.get().get()) != g_expect_addr)
            g_addr_ok = false;
        return I;
    }
    template<int I>
    static int d2r(cls_t<I>&, K0&) {
        return 10 + I;
    }
    template<int I>
    static int d2m(virtual_ptr<cls_t<I>, P>, K0&) {
        return 10 + I;
    }

    // removable definitions: the real thunks, registered / unregistered by hand
    // (what add_function's constructor and ~definition_info do)
    static constexpr int NMETH = 9;
    alignas(16) static inline unsigned char def_mem[NMETH][4][sizeof(d::definition_info)];
    static inline bool live[4];

    template<class M, auto F, class SpecList>
    static void link_def(int m, int i) {
        memset(def_mem[m][i], 0, sizeof(d::definition_info));
        auto di = new (def_mem[m][i]) d::definition_info();
        di->method = &M::fn;
        di->type = M::fn.method_type;
        using params = d::parameter_type_list_t<decltype(F)>;
        di->pf = (void*)d::thunk<P, typename M::signature_type, F, params>::fn;
        using ids = d::type_id_list<
            P, d::spec_polymorphic_types<P, typename M::declared_argument_types, params>>;
        di->vp_begin = ids::begin;
        di->vp_end = ids::end;
        M::fn.specs.push_back(*di);
    }
    static void unlink_def(int m, int i) {
        reinterpret_cast<d::definition_info*>(def_mem[m][i])->~definition_info();
    }
    template<int I>
    static void set_def(bool on) {
        if (live[I] == on)
            return;
        live[I] = on;
        if (on) {
            link_def<Mr, dr<I>, void>(0, I);
            link_def<Mv, dv<I>, void>(1, I);
            link_def<Mc, dc<I>, void>(2, I);
            link_def<Ms, ds<I>, void>(3, I);
            link_def<M2r, d2r<I>, void>(4, I);
            link_def<M2m, d2m<I>, void>(5, I);
            link_def<Mkv, dkv<I>, void>(6, I);
            link_def<Mks, dks<I>, void>(7, I);
        } else
            for (int m = 0; m < NMETH - 1; ++m)
                unlink_def(m, I);
    }
    static void set_defs(unsigned mask) {
        set_def<0>(mask & 1);
        set_def<1>(mask & 2);
        set_def<2>(mask & 4);
        set_def<3>(mask & 8);
    }

    static void setup() {
        static use_classes<K0, K1, K2, K3, P> classes;
        static bool once = false;
        if (!once) {
            // the method called from inside dv<> has a definition for every
            // class, whatever subset the outer methods have
            once = true;
            link_def<Mn, dn<0>, void>(8, 0);
            link_def<Mn, dn<1>, void>(8, 1);
            link_def<Mn, dn<2>, void>(8, 2);
            link_def<Mn, dn<3>, void>(8, 3);
        }
        P::error = [](const error_type& e) {
            if (auto r = std::get_if<resolution_error>(&e))
                throw Thrown{(int)r->status};
            throw Thrown{-9};
        };
    }

    template<class F>
    static int guarded(F&& f) {
        try {
            return f();
        } catch (Thrown& t) {
            return -t.status;
        }
    }

    // every route that yields a virtual_ptr<B> to object o (of class D)
    template<int B, int D>
    static void routes(cls_t<D>& o, unsigned defs) {
        using TB = cls_t<B>;
        using TD = cls_t<D>;
        TB& as_b = o;
        K0& as_root = o;
        const void* root_addr = (const void*)&as_root;
        int want = guarded([&] { return Mr::fn(as_root); });
        int want2 = guarded([&] { return M2r::fn(as_root, as_root); });
        auto check = [&](const char* route, virtual_ptr<TB, P> p) {
            ++g_cases;
            g_where = std::string(LATNAME) + " policy=" + pname() + " defs=" +
                std::to_string(defs) + " object=K" + std::to_string(D) + " static=K" +
                std::to_string(B) + " route=" + route;
            g_expect_addr = root_addr;
            g_addr_ok = true;
            virtual_ptr<K0, P> up(p); // what a method taking virtual_ptr<K0> receives
            g_nested = -100;
            int got_v = guarded([&] { return Mv::fn(up); });
            int nested = g_nested;
            int got_c = guarded([&] { return Mc::fn(up); });
            int got_2 = guarded([&] { return M2m::fn(up, as_root); });
            g_expect_addr = nullptr;
            g_facts += 6;
            if (got_v != want || got_c != want)
                fail("call through the virtual_ptr ran " + std::to_string(got_v) + "/" +
                     std::to_string(got_c) + ", plain reference ran " + std::to_string(want));
            if (got_2 != want2)
                fail("binary call through the virtual_ptr ran " + std::to_string(got_2) +
                     ", plain references ran " + std::to_string(want2));
            if (want >= 0 && nested != D)
                fail("a call made inside the definition through the pointer it received ran " +
                     std::to_string(nested) + ", the pointee's own definition is " +
                     std::to_string(D));
            if (!g_addr_ok)
                fail("definition received another object than the pointee");
            if (p.get() != &as_b || &*p != &as_b || p.operator->() != &as_b)
                fail("get / * / -> do not give back the original object");
        };
        check("base-reference", virtual_ptr<TB, P>(as_b));
        virtual_ptr<TD, P> pd(o);
        check("converted-lvalue", virtual_ptr<TB, P>(pd));
        const virtual_ptr<TD, P> cpd(o);
        check("converted-const", virtual_ptr<TB, P>(cpd));
        check("converted-rvalue", virtual_ptr<TB, P>(virtual_ptr<TD, P>(o)));
        auto fin = virtual_ptr<TD, P>::final(o);
        check("final-converted", virtual_ptr<TB, P>(fin));
        check("final_virtual_ptr", virtual_ptr<TB, P>(final_virtual_ptr<P>(o)));
        virtual_ptr<TB, P> copy{virtual_ptr<TB, P>(as_b)};
        virtual_ptr<TB, P> copy2 = copy;
        check("copied", copy2);
        virtual_ptr<TB, P> moved(std::move(copy));
        check("moved", moved);
        if constexpr (!std::is_abstract_v<TB>) {
            // assignment over a pointer that referred to another object
            cls_t<B> other;
            virtual_ptr<TB, P> a1(other), a2(other), a3(other);
            a1 = copy2;
            check("copy-assigned", a1);
            a2 = virtual_ptr<TB, P>(as_b);
            check("move-assigned", a2);
            a3 = pd;
            check("assigned-converted", a3);
        }
        if constexpr (B == D) {
            check("exact", virtual_ptr<TD, P>(o));
            check("final", virtual_ptr<TD, P>::final(o));
        }
        // const-qualified pointees, plain and shared
        {
            const TB& c_as_b = o;
            const TD& c_o = o;
            auto check_const = [&](const char* route, virtual_ptr<const TB, P> p) {
                ++g_cases;
                g_where = std::string(LATNAME) + " policy=" + pname() + " defs=" +
                    std::to_string(defs) + " object=K" + std::to_string(D) + " static=const K" +
                    std::to_string(B) + " route=" + route;
                g_expect_addr = root_addr;
                g_addr_ok = true;
                virtual_ptr<const K0, P> up(p);
                int got = guarded([&] { return Mkv::fn(up); });
                g_expect_addr = nullptr;
                g_facts += 3;
                if (got != want)
                    fail("call through the virtual_ptr<const> ran " + std::to_string(got) +
                         ", plain reference ran " + std::to_string(want));
                if (!g_addr_ok)
                    fail("definition received another object than the pointee");
                if (p.get() != &c_as_b)
                    fail("get() does not give back the original object");
            };
            check_const("const-base-reference", virtual_ptr<const TB, P>(c_as_b));
            check_const("const-from-non-const-reference", virtual_ptr<const TB, P>(as_b));
            virtual_ptr<const TD, P> cpd2(c_o);
            check_const("const-converted", virtual_ptr<const TB, P>(cpd2));
            if constexpr (B == D) {
                check_const("const-exact", virtual_ptr<const TD, P>(c_o));
                check_const("const-final", virtual_ptr<const TD, P>::final(c_o));
            }
            auto check_const_shared = [&](const char* route,
                                          virtual_ptr<std::shared_ptr<const TB>, P> p,
                                          const void* addr, int want_s) {
                ++g_cases;
                g_where = std::string(LATNAME) + " policy=" + pname() + " defs=" +
                    std::to_string(defs) + " object=K" + std::to_string(D) + " static=const K" +
                    std::to_string(B) + " route=" + route;
                g_expect_addr = addr;
                g_addr_ok = true;
                virtual_ptr<std::shared_ptr<const K0>, P> up(p);
                int got = guarded([&] { return Mks::fn(up); });
                g_expect_addr = nullptr;
                g_facts += 3;
                if (got != want_s)
                    fail("call through the virtual_shared_ptr<const> ran " + std::to_string(got) +
                         ", plain reference ran " + std::to_string(want_s));
                if (!g_addr_ok)
                    fail("definition received another object than the pointee");
                if ((const void*)static_cast<const K0*>(p.get().get()) != addr)
                    fail("get() does not give back the original object");
            };
            auto sp = std::make_shared<TD>();
            K0& r = *sp;
            int want_s = guarded([&] { return Mr::fn(r); });
            std::shared_ptr<const TB> cspb = sp;
            const std::shared_ptr<const TB> ccspb = sp;
            check_const_shared("const-shared-from-lvalue",
                               virtual_ptr<std::shared_ptr<const TB>, P>(cspb), &r, want_s);
            check_const_shared("const-shared-from-const",
                               virtual_ptr<std::shared_ptr<const TB>, P>(ccspb), &r, want_s);
            check_const_shared("const-shared-from-rvalue",
                               virtual_ptr<std::shared_ptr<const TB>, P>(std::shared_ptr<const TB>(sp)),
                               &r, want_s);
            virtual_ptr<std::shared_ptr<const TD>, P> cvd{std::shared_ptr<const TD>(sp)};
            check_const_shared("const-shared-converted",
                               virtual_ptr<std::shared_ptr<const TB>, P>(cvd), &r, want_s);
            if constexpr (B == D) {
                std::shared_ptr<const TD> lv = sp;
                check_const_shared("const-shared-final",
                                   virtual_ptr<std::shared_ptr<const TD>, P>::final(lv), &r, want_s);
                auto made = make_virtual_shared<const TD, P>();
                const K0& mr = *made.get();
                int want_m = guarded([&] { return Mr::fn(const_cast<K0&>(mr)); });
                check_const_shared("const-make_virtual_shared", made, &mr, want_m);
            }
        }
        // shared flavours
        auto check_shared = [&](const char* route, virtual_ptr<std::shared_ptr<TB>, P> p,
                                const void* addr, int want_s) {
            ++g_cases;
            g_where = std::string(LATNAME) + " policy=" + pname() + " defs=" +
                std::to_string(defs) + " object=K" + std::to_string(D) + " static=K" +
                std::to_string(B) + " route=" + route;
            g_expect_addr = addr;
            g_addr_ok = true;
            virtual_ptr<std::shared_ptr<K0>, P> up(p);
            int got = guarded([&] { return Ms::fn(up); });
            g_expect_addr = nullptr;
            g_facts += 3;
            if (got != want_s)
                fail("call through the virtual_shared_ptr ran " + std::to_string(got) +
                     ", plain reference ran " + std::to_string(want_s));
            if (!g_addr_ok)
                fail("definition received another object than the pointee");
            if ((const void*)static_cast<const K0*>(p.get().get()) != addr)
                fail("get() does not give back the original object");
        };
        {
            auto sp = std::make_shared<TD>();
            K0& r = *sp;
            int want_s = guarded([&] { return Mr::fn(r); });
            std::shared_ptr<TB> spb = sp;
            const std::shared_ptr<TB> cspb = sp;
            long uses = sp.use_count();
            check_shared("shared-from-lvalue", virtual_ptr<std::shared_ptr<TB>, P>(spb), &r, want_s);
            check_shared("shared-from-const", virtual_ptr<std::shared_ptr<TB>, P>(cspb), &r, want_s);
            check_shared("shared-from-rvalue",
                         virtual_ptr<std::shared_ptr<TB>, P>(std::shared_ptr<TB>(sp)), &r, want_s);
            virtual_ptr<std::shared_ptr<TD>, P> vd(sp);
            check_shared("shared-converted", virtual_ptr<std::shared_ptr<TB>, P>(vd), &r, want_s);
            {
                virtual_ptr<std::shared_ptr<TB>, P> s1(spb), s2(std::move(s1));
                check_shared("shared-moved", s2, &r, want_s);
                auto other = std::make_shared<TD>();
                virtual_ptr<std::shared_ptr<TB>, P> s3{std::shared_ptr<TB>(other)};
                s3 = s2;
                check_shared("shared-copy-assigned", s3, &r, want_s);
                virtual_ptr<std::shared_ptr<TB>, P> s4{std::shared_ptr<TB>(other)};
                s4 = vd;
                check_shared("shared-assigned-converted", s4, &r, want_s);
            }
            if constexpr (B == D) {
                // final on the smart pointer itself: lvalue, const lvalue, rvalue
                std::shared_ptr<TD> lv = sp;
                const std::shared_ptr<TD> clv = sp;
                check_shared("shared-final-lvalue",
                             virtual_ptr<std::shared_ptr<TB>, P>(
                                 virtual_ptr<std::shared_ptr<TD>, P>::final(lv)), &r, want_s);
                check_shared("shared-final-const",
                             virtual_ptr<std::shared_ptr<TB>, P>(
                                 virtual_ptr<std::shared_ptr<TD>, P>::final(clv)), &r, want_s);
                check_shared("shared-final-rvalue",
                             virtual_ptr<std::shared_ptr<TB>, P>(
                                 virtual_ptr<std::shared_ptr<TD>, P>::final(std::shared_ptr<TD>(sp))),
                             &r, want_s);
            }
            check_shared("shared-converted-rvalue",
                         virtual_ptr<std::shared_ptr<TB>, P>(virtual_ptr<std::shared_ptr<TD>, P>(sp)),
                         &r, want_s);
            ++g_facts;
            vd = virtual_ptr<std::shared_ptr<TD>, P>(sp);
            if (sp.use_count() != uses + 1)
                fail("use_count inconsistent after the shared routes");
        }
        {
            auto made = make_virtual_shared<TD, P>();
            K0& r = *made.get();
            int want_s = guarded([&] { return Mr::fn(r); });
            check_shared("make_virtual_shared", virtual_ptr<std::shared_ptr<TB>, P>(made), &r, want_s);
        }
    }

    template<int B, int D>
    static void pair(unsigned defs) {
        if constexpr (le(D, B) && !std::is_abstract_v<cls_t<D>>) {
            cls_t<D> o;
            routes<B, D>(o, defs);
        }
    }
    template<int... I>
    static void all_pairs(unsigned defs, std::integer_sequence<int, I...>) {
        (pair<I / 4, I % 4>(defs), ...);
    }

    static const char* pname() {
        if constexpr (std::is_same_v<P, PD>)
            return "direct";
        else if constexpr (std::is_same_v<P, PC>)
            return "checked";
        else if constexpr (std::is_same_v<P, PM>)
            return "map";
        else if constexpr (std::is_same_v<P, PJ>)
            return "indirect-by-inheritance";
        else
            return "indirect";
    }

    static void run_routes() {
        setup();
        for (unsigned defs = 0; defs < 16; ++defs) {
            set_defs(defs);
            update<P>();
            if (__builtin_popcount(defs) >= 1 && __builtin_popcount(defs) <= 3)
                ++g_nontrivial;
            all_pairs(defs, std::make_integer_sequence<int, 16>());
#ifdef HAS_LIFE_HOOK
            // while a constructor or destructor runs, the dynamic type is the
            // class under construction (possibly abstract): a virtual_ptr made
            // there from a base reference dispatches like the plain reference
            g_hook_defs = defs;
            g_life_hook = life_hook;
            {
                K3 o3;
                K1 o1;
            }
            g_life_hook = nullptr;
#endif
        }
        set_defs(0);
    }
#ifdef HAS_LIFE_HOOK
    static inline unsigned g_hook_defs = 0;
    static void life_hook(K0& self, int cls_index, bool ctor) {
        ++g_cases;
        g_where = std::string(LATNAME) + " policy=" + pname() + " defs=" +
            std::to_string(g_hook_defs) + " object under " + (ctor ? "construction" : "destruction") +
            " in K" + std::to_string(cls_index) + " route=base-reference";
        int want = guarded([&] { return Mr::fn(self); });
        virtual_ptr<K0, P> p(self);
        int got = guarded([&] { return Mv::fn(p); });
        int got_c = guarded([&] { return Mc::fn(p); });
        g_facts += 3;
        if (got != want || got_c != want)
            fail("call through the virtual_ptr ran " + std::to_string(got) + "/" +
                 std::to_string(got_c) + ", plain reference ran " + std::to_string(want));
        if (p.get() != &self)
            fail("get() does not give back the original object");
    }
#endif

    // ---- histories: ops 0..3 toggle definition i, 4 update, 5..8 create a
    // pointer to an object of class K3 / K1 by a route, 9 call through every
    // valid pointer, 10 register / unregister a group of 12 unrelated classes
    using Group = use_classes<
        XR, XK<0>, XK<1>, XK<2>, XK<3>, XK<4>, XK<5>, XK<6>, XK<7>, XK<8>, XK<9>, XK<10>,
        XK<11>, P>;
    alignas(16) static inline unsigned char group_mem[sizeof(Group)];
    static inline bool group_live = false;
    static void set_group(bool on) {
        if (on == group_live)
            return;
        group_live = on;
        if (on) {
            memset(group_mem, 0, sizeof group_mem);
            new (group_mem) Group();
        } else
            reinterpret_cast<Group*>(group_mem)->~Group();
    }
    struct Ptr {
        std::optional<virtual_ptr<K0, P>> p;
        int cls = -1;
        bool valid = false;
        K0* obj = nullptr;
    };
    static void run_histories(int depth) {
        setup();
        static K3 o3;
        static K1 o1;
        std::vector<int> seq;
        std::function<void()> rec = [&]() {
            if (!seq.empty()) {
                // replay the sequence from a clean registry
                ++g_histories;
                set_defs(0);
                set_group(false);
                update<P>();
                unsigned defs = 0;
                bool group = false;
                bool clean = true; // registrations unchanged since the last update
                std::vector<Ptr> ptrs;
                std::string text;
                for (int op : seq)
                    text += std::to_string(op) + " ";
                g_where = std::string(LATNAME) + " policy=" + pname() + " history=" + text;
                for (int op : seq) {
                    if (op == 10) {
                        group = !group;
                        set_group(group);
                        clean = false;
                    } else if (op < 4) {
                        defs ^= 1u << op;
                        set_defs(defs);
                        clean = false;
                    } else if (op == 4) {
                        // a growing registry reallocates dispatch data
                        update<P>();
                        clean = true;
                        if (!indirect)
                            for (auto& q : ptrs)
                                q.valid = false; // direct: valid until the next update
                    } else if (op < 9) {
                        if (!clean)
                            continue; // pointers are created from up-to-date tables
                        Ptr q;
                        K0& r3 = o3;
                        K0& r1 = o1;
                        switch (op) {
                        case 5:
                            q.p.emplace(r3);
                            q.obj = &r3;
                            break;
                        case 6:
                            q.p.emplace(virtual_ptr<K3, P>(o3));
                            q.obj = &r3;
                            break;
                        case 7:
                            q.p.emplace(virtual_ptr<K1, P>::final(o1));
                            q.obj = &r1;
                            break;
                        default:
                            q.p.emplace(r1);
                            q.obj = &r1;
                        }
                        q.valid = true;
                        ptrs.push_back(q);
                    } else if (clean) {
                        for (auto& q : ptrs) {
                            if (!q.valid)
                                continue;
                            ++g_facts;
                            int want = guarded([&] { return Mr::fn(*q.obj); });
                            int got = guarded([&] { return Mv::fn(*q.p); });
                            if (got != want)
                                fail("pointer created earlier ran " + std::to_string(got) +
                                     ", a plain reference now runs " + std::to_string(want));
                        }
                    }
                }
            }
            if ((int)seq.size() == depth)
                return;
            for (int op = 0; op < 11; ++op) {
                seq.push_back(op);
                rec();
                seq.pop_back();
            }
        };
        rec();
        set_defs(0);
        set_group(false);
    }
};

// names the case that was running when the program died (diagnostics only)
static void on_fatal(int sig) {
    const char* head = "fatal signal during: ";
    (void)!write(2, head, strlen(head));
    (void)!write(2, g_where.c_str(), g_where.size());
    (void)!write(2, "\n", 1);
    signal(sig, SIG_DFL);
    raise(sig);
}

int main(int argc, char** argv) {
    int depth = argc > 1 ? atoi(argv[1]) : 4;
    signal(SIGSEGV, on_fatal);
    signal(SIGBUS, on_fatal);
    signal(SIGABRT, on_fatal);
    W<PD>::run_routes();
    W<PC>::run_routes();
    W<PM>::run_routes();
    W<PI>::run_routes();
    W<PJ>::run_routes();
    W<PI>::run_histories(depth);
    W<PJ>::run_histories(depth > 4 ? depth - 1 : depth);
    W<PD>::run_histories(depth);
    for (auto& c : g_cands)
        printf("CAND\t%s\n", c.c_str());
    printf("SAMPLE\t%s: 4 policies x 16 definition subsets x (static, object) pairs x routes; "
           "histories to depth %d\n", LATNAME, depth);
    printf("SUMMARY\t{\"cases\": %ld, \"facts\": %ld, \"nontrivial\": %ld, \"histories\": %ld}\n",
           g_cases, g_facts, g_nontrivial, g_histories);
    fflush(stdout);
    _exit(0);
}
