// usedefs.cpp - engine E5, program family for C20. One compilation = one
// SHAPE of type lists (-DL1= -DL2= -DL3=, 0 = absent), one front-end branch
// (-DHASMETHOD=0/1: definition template with / without a `method` member) and
// one mask mode:
//   -DMASKS=all      every subset of combinations marked not_defined (2^n programs
//                    in one binary, n = UD_L1*UD_L2*UD_L3 <= 6)
//   -DMASKS=patterns none / all / first / last / checkerboard / one row / one column
// Each (shape, mask) is a distinct method + definition template instantiation:
// a distinct generated "program" sharing one main().
#include <yorel/yomm2/core.hpp>
#include <yorel/yomm2/templates.hpp>

#include <cstdio>
#include <map>
#include <set>
#include <string>
#include <typeinfo>
#include <vector>
#include <unistd.h>

using namespace yorel::yomm2;
namespace mp11 = boost::mp11;

#ifndef UD_L1
#define UD_L1 2
#endif
#ifndef UD_L2
#define UD_L2 2
#endif
#ifndef UD_L3
#define UD_L3 0
#endif
#ifndef HASMETHOD
#define HASMETHOD 0
#endif
#ifndef MASKMODE
#define MASKMODE 0 /* 0 = all subsets, 1 = patterns */
#endif

constexpr int D1 = UD_L1, D2 = UD_L2 ? UD_L2 : 1, D3 = UD_L3 ? UD_L3 : 1;
constexpr int ARITY = 1 + (UD_L2 ? 1 : 0) + (UD_L3 ? 1 : 0);
constexpr int NCOMBO = D1 * D2 * D3;
constexpr int NCLS = (D1 > D2 ? (D1 > D3 ? D1 : D3) : (D2 > D3 ? D2 : D3));

struct P : policy::release::rebind<P> {};

struct Base {
    virtual ~Base() {
    }
};
template<int I>
struct K : Base {};

template<class Seq>
struct class_list;
template<int... I>
struct class_list<std::integer_sequence<int, I...>> {
    using type = types<K<I>...>;
    using registration = use_classes<Base, K<I>..., P>;
    static std::vector<Base*> make() {
        return {new K<I>()...};
    }
    static std::vector<type_id> ids() {
        return {P::static_type<K<I>>()...};
    }
};
template<int N>
using classes = class_list<std::make_integer_sequence<int, N>>;

template<class T>
struct index_of;
template<int I>
struct index_of<K<I>> {
    static constexpr int value = I;
};

// a bit set over combinations, as a type
template<unsigned long long... W>
struct mask_t {
    static constexpr unsigned long long words[] = {W..., 0};
    static constexpr bool test(int i) {
        return (words[i / 64] >> (i % 64)) & 1;
    }
};

template<class... T>
constexpr int combo_index() {
    constexpr int idx[] = {index_of<T>::value..., 0, 0};
    int r = idx[0];
    if (ARITY > 1)
        r = r * D2 + idx[1];
    if (ARITY > 2)
        r = r * D3 + idx[2];
    return r;
}

struct defined_base {};

// how a combination is marked: "derives from not_defined" in several ways
#ifndef MARKSTYLE
#define MARKSTYLE 0
#endif
struct mark_indirect : not_defined {};
struct mark_left : not_defined {};
struct mark_right : not_defined {};
struct mark_twice : mark_left, mark_right {}; // two not_defined sub-objects
class mark_private : not_defined {};           // private base
#if MARKSTYLE == 0
using undefined_mark = not_defined;
#elif MARKSTYLE == 1
using undefined_mark = mark_indirect;
#elif MARKSTYLE == 2
using undefined_mark = mark_twice;
#else
using undefined_mark = mark_private;
#endif

template<class Seq>
struct sig;
template<std::size_t... I>
struct sig<std::index_sequence<I...>> {
    template<std::size_t>
    using vb = virtual_<Base&>;
    using type = int(vb<I>...);
};

// OUTERLIST=1: the list of methods given to product is a boost::mp11::mp_list
// (any mp11 list is a list of types), so that the product itself is one
#ifndef OUTERLIST
#define OUTERLIST 0
#endif
#if OUTERLIST
#define METHOD_LIST boost::mp11::mp_list
#else
#define METHOD_LIST types
#endif
#ifndef TWOMETHODS
#define TWOMETHODS 0
#endif
// one function per combination, shared by the definition containers of every
// method in the product (containers that inherit a method-independent fn)
template<class... T>
struct shared_impl {
    static int fn(T&...) {
        return combo_index<T...>();
    }
};

template<class Mask>
struct Case {
    struct key;
    struct key2;
    using M = method<key, typename sig<std::make_index_sequence<ARITY>>::type, P>;
    using M2 = method<key2, typename sig<std::make_index_sequence<ARITY>>::type, P>;

#if HASMETHOD
    template<class... T>
    struct definition
        : std::conditional_t<Mask::test(combo_index<T...>()), undefined_mark, defined_base> {
        using method = M;
        static int fn(T&...) {
            return combo_index<T...>();
        }
    };
    using lists = product<
        typename classes<D1>::type
#if UD_L2
        ,
        typename classes<D2>::type
#endif
#if UD_L3
        ,
        typename classes<D3>::type
#endif
        >;
#else
#if TWOMETHODS
    template<class Method, class... T>
    struct definition
        : shared_impl<T...>,
          std::conditional_t<Mask::test(combo_index<T...>()), undefined_mark, defined_base> {};
    using lists = product<
        METHOD_LIST<M, M2>, typename classes<D1>::type
#else
    template<class Method, class... T>
    struct definition
        : std::conditional_t<Mask::test(combo_index<T...>()), undefined_mark, defined_base> {
        static int fn(T&...) {
            return combo_index<T...>();
        }
    };
    using lists = product<
        METHOD_LIST<M>, typename classes<D1>::type
#endif
#if UD_L2
        ,
        typename classes<D2>::type
#endif
#if UD_L3
        ,
        typename classes<D3>::type
#endif
        >;
#endif
    using registration = use_definitions<definition, lists>;
};

static long g_cases = 0, g_facts = 0, g_nontrivial = 0, g_calls = 0;
static std::vector<std::string> g_cands, g_samples;
static std::vector<Base*> g_objs;
static std::vector<type_id> g_ids;

static int class_of(type_id id) {
    for (size_t i = 0; i < g_ids.size(); ++i)
        if (g_ids[i] == id)
            return (int)i;
    return -1;
}

template<class M>
int call_combo(int c) {
    int i3 = c % D3, i2 = (c / D3) % D2, i1 = c / (D3 * D2);
    if constexpr (ARITY == 1)
        return M::fn(*g_objs[i1]);
    else if constexpr (ARITY == 2)
        return M::fn(*g_objs[i1], *g_objs[i2]);
    else
        return M::fn(*g_objs[i1], *g_objs[i2], *g_objs[i3]);
}

template<class M, class Seq>
struct catch_all;
template<class M, std::size_t... I>
struct catch_all<M, std::index_sequence<I...>> {
    template<std::size_t>
    using base_ref = Base&;
    static int fn(base_ref<I>...) {
        return -1;
    }
};
template<class M, std::size_t... I>
void add_catch_all(std::index_sequence<I...> seq) {
    static typename M::template add_function<catch_all<M, decltype(seq)>::fn> reg;
}

template<class Mask, class M>
void check_method(const std::string& mask_text, const char* which);

template<class Mask>
void run_case(const std::string& mask_text) {
    using C = Case<Mask>;
    ++g_cases;
    add_catch_all<typename C::M>(std::make_index_sequence<ARITY>());
#if TWOMETHODS
    add_catch_all<typename C::M2>(std::make_index_sequence<ARITY>());
#endif
    static typename C::registration reg; // registers the defined combinations
    check_method<Mask, typename C::M>(mask_text, "method 1");
#if TWOMETHODS
    check_method<Mask, typename C::M2>(mask_text, "method 2 (same definition functions)");
#endif
}

template<class Mask, class M>
void check_method(const std::string& mask_text, const char* which) {
    // (1) exactly the defined combinations are in the method's catalog
    std::multiset<int> registered;
    int others = 0;
    for (auto& spec : M::fn.specs) {
        int idx[3] = {0, 0, 0};
        int k = 0;
        bool base = false;
        for (auto it = spec.vp_begin; it != spec.vp_end; ++it, ++k) {
            int c = class_of(*it);
            if (c < 0)
                base = true; // the catch-all on Base
            else if (k < 3)
                idx[k] = c;
        }
        if (base) {
            ++others;
            continue;
        }
        int r = idx[0];
        if (ARITY > 1)
            r = r * D2 + idx[1];
        if (ARITY > 2)
            r = r * D3 + idx[2];
        registered.insert(r);
    }
    std::multiset<int> expected;
    int ndef = 0;
    for (int c = 0; c < NCOMBO; ++c)
        if (!Mask::test(c)) {
            expected.insert(c);
            ++ndef;
        }
    ++g_facts;
    if (ndef != 0 && ndef != NCOMBO)
        ++g_nontrivial;
    std::string name = "L=" + std::to_string(UD_L1) + "x" + std::to_string(UD_L2) + "x" +
        std::to_string(UD_L3) + " method_member=" + std::to_string(HASMETHOD) +
        " mark_style=" + std::to_string(MARKSTYLE) + " " + which +
        " not_defined=" + mask_text;
    if (registered != expected || others != 1) {
        std::string got, want;
        for (int c : registered)
            got += std::to_string(c) + " ";
        for (int c : expected)
            want += std::to_string(c) + " ";
        if (g_cands.size() < 30)
            g_cands.push_back(
                name + "\tregistered combinations {" + got + "} expected {" + want + "}" +
                " (+" + std::to_string(others) + " other definitions, expected 1)");
        return;
    }
    // (2) after update every combination reaches its own definition
    update<P>();
    for (int c = 0; c < NCOMBO; ++c) {
        int want = Mask::test(c) ? -1 : c;
        int got = call_combo<M>(c);
        ++g_calls;
        if (got != want) {
            if (g_cands.size() < 30)
                g_cands.push_back(
                    name + "\tcombination " + std::to_string(c) + " ran definition " +
                    std::to_string(got) + " expected " + std::to_string(want));
            return;
        }
    }
    if (g_samples.size() < 4 && ndef != 0 && ndef != NCOMBO)
        g_samples.push_back(name + " -> " + std::to_string(ndef) + " definitions registered");
}

// product enumerates the full Cartesian product in row-major order
template<class... T>
struct id_wrap {};
template<class TL>
using wrap_tl = mp11::mp_apply<id_wrap, TL>;
template<class TL>
struct order_of;
template<class... Tuples>
struct order_of<types<Tuples...>> {
    template<class TL>
    struct one;
    template<class... T>
    struct one<types<T...>> {
        static int get() {
            return combo_index<T...>();
        }
    };
    static std::vector<int> get() {
        return {one<Tuples>::get()...};
    }
};

static void check_product_order() {
    using prod = product<
        typename classes<D1>::type
#if UD_L2
        ,
        typename classes<D2>::type
#endif
#if UD_L3
        ,
        typename classes<D3>::type
#endif
        >;
    auto order = order_of<prod>::get();
    ++g_facts;
    bool ok = (int)order.size() == NCOMBO;
    for (int i = 0; ok && i < NCOMBO; ++i)
        if (order[i] != i)
            ok = false;
    if (!ok)
        g_cands.push_back(
            "L=" + std::to_string(UD_L1) + "x" + std::to_string(UD_L2) + "x" + std::to_string(UD_L3) +
            " product\tproduct does not enumerate the Cartesian product in order (" +
            std::to_string(order.size()) + " tuples)");
    // apply_product / transform_product agree with product
    using ap = apply_product<templates<id_wrap>,
                             typename classes<D1>::type
#if UD_L2
                             ,
                             typename classes<D2>::type
#endif
#if UD_L3
                             ,
                             typename classes<D3>::type
#endif
                             >;
    ++g_facts;
    if (mp11::mp_size<ap>::value != (std::size_t)NCOMBO ||
        !std::is_same_v<ap, mp11::mp_transform<wrap_tl, prod>>)
        g_cands.push_back(
            "L=" + std::to_string(UD_L1) + "x" + std::to_string(UD_L2) + "x" + std::to_string(UD_L3) +
            " apply_product\tapply_product differs from product mapped through the template");
}

#if MASKMODE == 0
template<unsigned long long... M>
void run_all(std::integer_sequence<unsigned long long, M...>) {
    (run_case<mask_t<M>>("0x" + [] {
         char b[32];
         snprintf(b, sizeof b, "%llx", (unsigned long long)M);
         return std::string(b);
     }()),
     ...);
}
#else
// patterns for large products (bit sets as up to 17 words)
template<int Pattern, std::size_t... W>
constexpr auto make_mask(std::index_sequence<W...>) {
    auto word = [](std::size_t w) constexpr -> unsigned long long {
        unsigned long long r = 0;
        for (int b = 0; b < 64; ++b) {
            int c = (int)w * 64 + b;
            if (c >= NCOMBO)
                break;
            bool on = false;
            int i2 = (c / D3) % D2, i1 = c / (D3 * D2);
            switch (Pattern) {
            case 0:
                on = false;
                break;
            case 1:
                on = true;
                break;
            case 2:
                on = c == 0;
                break;
            case 3:
                on = c == NCOMBO - 1;
                break;
            case 4:
                on = (i1 + i2) % 2 == 1;
                break;
            case 5:
                on = i1 == D1 / 2;
                break;
            case 6:
                on = i2 == D2 / 2;
                break;
            case 7:
                on = c == NCOMBO / 2;
                break;
            }
            if (on)
                r |= 1ull << b;
        }
        return r;
    };
    return mask_t<word(W)...>();
}
template<int Pattern>
void run_pattern(const char* name) {
    using Mask = decltype(make_mask<Pattern>(std::make_index_sequence<(NCOMBO + 63) / 64>()));
    run_case<Mask>(name);
}
#endif

int main() {
    static typename classes<NCLS>::registration class_reg;
    g_objs = classes<NCLS>::make();
    g_ids = classes<NCLS>::ids();
    P::error = [](const error_type&) { throw 1; };
    check_product_order();
#if MASKMODE == 0
    static_assert(NCOMBO <= 6, "all subsets only for products of <= 6 elements");
    run_all(std::make_integer_sequence<unsigned long long, (1ull << NCOMBO)>());
#else
#ifdef ONLY_PATTERN
    run_pattern<ONLY_PATTERN>("pattern");
#else
    run_pattern<0>("none");
    run_pattern<2>("first");
    run_pattern<3>("last");
    run_pattern<7>("middle");
    run_pattern<4>("checkerboard");
    run_pattern<5>("one row");
    run_pattern<6>("one column");
    run_pattern<1>("all");
#endif
#endif
    for (auto& c : g_cands)
        printf("CAND\t%s\n", c.c_str());
    for (auto& s : g_samples)
        printf("SAMPLE\t%s\n", s.c_str());
    printf("SUMMARY\t{\"cases\": %ld, \"facts\": %ld, \"nontrivial\": %ld, \"calls\": %ld, "
           "\"combinations\": %d}\n",
           g_cases, g_facts, g_nontrivial, g_calls, NCOMBO);
    fflush(stdout);
    _exit(0);
}
