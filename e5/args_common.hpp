// args_common.hpp - shared part of the generated C11 programs: class shapes,
// tracked argument types, recorder.
#pragma once
#include <yorel/yomm2/keywords.hpp>

#include <cstdio>
#include <memory>
#include <string>
#include <vector>
#include <unistd.h>

using namespace yorel::yomm2;

struct Pad1 {
    virtual ~Pad1() {
    }
    long pad1[3] = {1, 2, 3};
};
struct Pad2 {
    virtual ~Pad2() {
    }
    long pad2[5] = {};
};

// inheritance shapes between the method's class (Base), the definition's class
// (Def) and the most derived class of the object (Most1, Most2: two layouts)
namespace s_same {
struct Base {
    virtual ~Base() {
    }
    int tag = 1;
};
using Def = Base;
struct Most1 : Base {};
struct Most2 : Pad1, Base {};
} // namespace s_same
namespace s_single {
struct Base {
    virtual ~Base() {
    }
    int tag = 2;
};
struct Def : Base {
    int d = 20;
};
using Most1 = Def;
struct Most2 : Def {
    long more[2] = {};
};
} // namespace s_single
namespace s_offset { // Base is the second base, at a non-zero offset
struct Base {
    virtual ~Base() {
    }
    int tag = 3;
};
struct Def : Pad1, Base {
    int d = 30;
};
using Most1 = Def;
struct Most2 : Pad2, Def {};
} // namespace s_offset
namespace s_virtual { // virtual base: the cast needs dynamic_cast
struct Base {
    virtual ~Base() {
    }
    int tag = 4;
};
struct Def : virtual Base {
    int d = 40;
};
using Most1 = Def;
struct Most2 : Pad1, Def { // another layout: different distance Base -> Def
    long more[4] = {};
};
} // namespace s_virtual
namespace s_deep { // two levels, an offset at each
struct Base {
    virtual ~Base() {
    }
    int tag = 5;
};
struct Mid : Pad1, Base {
    int m = 50;
};
struct Def : Pad2, Mid {
    int d = 51;
};
using Most1 = Def;
struct Most2 : Def {
    long more = 0;
};
} // namespace s_deep

struct Tracked {
    int id;
    static inline int copies = 0, moves = 0;
    explicit Tracked(int i) : id(i) {
    }
    Tracked(const Tracked& o) : id(o.id) {
        ++copies;
    }
    Tracked(Tracked&& o) noexcept : id(o.id) {
        o.id = -1;
        ++moves;
    }
    Tracked& operator=(const Tracked&) = delete;
    static void reset() {
        copies = moves = 0;
    }
};
inline Tracked g_returned(4242);

// a non-virtual parameter whose definition-side type is a base at a non-zero offset
struct TagPad {
    long pad = 1;
};
struct Tag {
    int tag = 22;
};
struct Gadget : TagPad, Tag {
    int g = 11;
};
// converts both ways with int
struct Wide {
    long v;
    Wide(int x) : v(x) {
    }
    operator int() const {
        return (int)v;
    }
};

struct Seen {
    int def_case = -1;
    const void* object = nullptr;      // address of the Def sub-object received
    const void* most_derived = nullptr;
    long use_count = -1;
    bool same_owner = true;
    const void* nv_addr[2] = {nullptr, nullptr};
    long nv_value[2] = {0, 0};
    int copies = 0, moves = 0; // counters at the time the body runs
};
inline Seen g_seen;
inline std::shared_ptr<void> g_caller_owner;

inline long g_cases = 0, g_facts = 0, g_nontrivial = 0;
inline std::vector<std::string> g_cands, g_samples;

inline void fail(const std::string& c, const std::string& kind, const std::string& detail) {
    if (g_cands.size() < 60)
        g_cands.push_back(c + "\t" + kind + ": " + detail);
}

template<class T>
const void* most_derived_of(const T* p) {
    return dynamic_cast<const void*>(p);
}

inline int finish() {
    for (auto& c : g_cands)
        printf("CAND\t%s\n", c.c_str());
    for (auto& s : g_samples)
        printf("SAMPLE\t%s\n", s.c_str());
    printf("SUMMARY\t{\"cases\": %ld, \"facts\": %ld, \"nontrivial\": %ld}\n", g_cases, g_facts,
           g_nontrivial);
    fflush(stdout);
    _exit(0);
}
