#!/usr/bin/env python3
"""Entry point of every check registered in MANIFEST.json.

  python3 check.py C01 --tier quick|thorough
  python3 check.py C01 --replay /verif/out/C01/1.json

exit 0: property held on everything explored (known findings are printed)
exit 1: at least one `VIOLATION property=<id> replay=<path>` line was printed
exit 2: harness error (never disguised as 0 or 1)
"""
import argparse
import json
import os
import sys

sys.path.insert(0, os.path.dirname(os.path.abspath(__file__)))

from lib import common as C  # noqa: E402
from lib import props  # noqa: E402


def main():
    ap = argparse.ArgumentParser()
    ap.add_argument("prop")
    ap.add_argument("--tier", default=os.environ.get("VERIF_TIER", "quick"),
                    choices=["quick", "thorough"])
    ap.add_argument("--replay")
    ap.add_argument("--deadline", type=float, default=None,
                    help="seconds; thorough runs stop cleanly at the deadline")
    a = ap.parse_args()
    if a.prop not in props.CHECKS:
        print("no check for " + a.prop, file=sys.stderr)
        return 2
    if a.replay:
        return props.replay(a.prop, a.replay)
    C.clear_replays(a.prop)
    res = C.Result(a.prop, a.tier)
    props.CHECKS[a.prop](res, a.tier, a.deadline)
    return C.finish(res)


if __name__ == "__main__":
    try:
        rc = main()
    except SystemExit:
        raise
    except BaseException as e:  # a harness failure is never reported as exit 0 or 1
        import traceback
        traceback.print_exc()
        print("HARNESS-ERROR: %s: %s" % (type(e).__name__, e))
        rc = 2
    sys.exit(rc)
