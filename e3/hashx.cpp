// hashx.cpp - engine E3 (C05): the real fast_perfect_hash / checked_perfect_hash
// hash_initialize + the real vptr_vector::publish_vptrs, driven with enumerated
// id sets, publish histories and search budgets (hook H1).
#include <yorel/yomm2/core.hpp>

#include <cstdio>
#include <cstring>
#include <map>
#include <set>
#include <string>
#include <vector>
#include <sys/mman.h>
#include <sys/wait.h>
#include <unistd.h>

using namespace yorel::yomm2;

struct PF : policy::basic_policy<
                PF, policy::fast_perfect_hash<PF>, policy::vptr_vector<PF>,
                policy::vectored_error<PF>> {};
struct PC : policy::basic_policy<
                PC, policy::checked_perfect_hash<PC>, policy::vptr_vector<PC>,
                policy::vectored_error<PC>> {};
struct PI : policy::basic_policy<
                PI, policy::fast_perfect_hash<PI>, policy::vptr_vector<PI>,
                policy::basic_indirect_vptr<PI>, policy::vectored_error<PI>> {};

struct Cls {
    std::vector<type_id> ids;
    std::uintptr_t* table;  // "v-table" of the class
    std::uintptr_t** slot;  // its static_vptr variable
    const std::uintptr_t* vptr() const {
        return *slot;
    }
    const std::uintptr_t* const* indirect_vptr() const {
        return slot;
    }
    auto type_id_begin() const {
        return ids.begin();
    }
    auto type_id_end() const {
        return ids.end();
    }
};

static std::uintptr_t g_tables[4096];
static std::uintptr_t* g_slots[4096];

// ---------------------------------------------------------------------------
// id set specs

static std::uint64_t xs(std::uint64_t& s) {
    s ^= s << 13;
    s ^= s >> 7;
    s ^= s << 17;
    return s;
}
static std::uint64_t bitrev(std::uint64_t x) {
    std::uint64_t r = 0;
    for (int i = 0; i < 64; ++i)
        if (x >> i & 1)
            r |= 1ull << (63 - i);
    return r;
}

// spec: fam:a:b:c...  -> list of classes (each a list of ids)
static std::vector<std::vector<type_id>> make_set(const std::string& spec) {
    std::vector<std::uint64_t> p;
    std::string fam;
    {
        size_t i = spec.find(':');
        fam = spec.substr(0, i);
        while (i != std::string::npos) {
            size_t e = spec.find(':', i + 1);
            p.push_back(strtoull(spec.substr(i + 1, e - i - 1).c_str(), nullptr, 0));
            i = e;
        }
    }
    std::vector<std::vector<type_id>> out;
    auto add = [&](type_id id) {
        if (id == invalid_type)
            return; // documented as "not a type id"
        out.push_back({id});
    };
    if (fam == "arith") { // b, s, N
        for (std::uint64_t i = 0; i < p[2]; ++i)
            add(p[0] + p[1] * i);
    } else if (fam == "two") { // b1 s1 N1 b2 s2 N2
        for (std::uint64_t i = 0; i < p[2]; ++i)
            add(p[0] + p[1] * i);
        for (std::uint64_t i = 0; i < p[5]; ++i)
            add(p[3] + p[4] * i);
    } else if (fam == "bitrev") { // N
        for (std::uint64_t i = 0; i < p[0]; ++i)
            add(bitrev(i));
    } else if (fam == "rand") { // seed N
        std::uint64_t s = p[0] * 0x9E3779B97F4A7C15ull + 1;
        for (std::uint64_t i = 0; i < p[1]; ++i)
            add(xs(s));
    } else if (fam == "multi") { // b s N : two ids per class (id, id + s/2 + 1)
        for (std::uint64_t i = 0; i < p[2]; ++i)
            out.push_back({p[0] + p[1] * i, p[0] + p[1] * i + p[1] / 2 + 1});
    } else if (fam == "empty") {
    } else {
        fprintf(stderr, "bad set spec %s\n", spec.c_str());
        _exit(2);
    }
    // ids must be distinct (a class map merges duplicates before hashing)
    std::set<type_id> seen;
    std::vector<std::vector<type_id>> dedup;
    for (auto& c : out) {
        std::vector<type_id> ids;
        for (auto id : c)
            if (seen.insert(id).second)
                ids.push_back(id);
        if (!ids.empty())
            dedup.push_back(ids);
    }
    return dedup;
}

// ---------------------------------------------------------------------------

struct Thrown {
    error_type err;
};
static long g_cases = 0, g_nontrivial = 0, g_transitions = 0, g_probes = 0,
            g_search_errors = 0;
static std::vector<std::string> g_cands, g_samples;
static std::string g_case;

static void cand(const std::string& why) {
    if (g_cands.size() < 60)
        g_cands.push_back(g_case + "\t" + why);
}

template<class P>
static void install_handler() {
    P::error = [](const error_type& e) { throw Thrown{e}; };
}

template<class P>
constexpr bool is_checked = P::template has_facet<policy::runtime_checks>;
template<class P>
constexpr bool is_ind = P::template has_facet<policy::indirect_vptr>;

// id -> tables of the classes that had it at the last successful publish
template<class P>
static std::map<type_id, std::set<const std::uintptr_t*>> g_last_owner;

// publishes `classes` through the real code, then checks the outcome.
// returns false when a hash_search_error was reported.
template<class P>
static bool publish_and_check(
    const std::vector<std::vector<type_id>>& sets, size_t budget,
    const std::set<type_id>& probes_extra) {
    std::vector<Cls> classes;
    for (size_t i = 0; i < sets.size(); ++i) {
        Cls c;
        c.ids = sets[i];
        c.table = &g_tables[i % 4096];
        g_slots[i % 4096] = c.table;
        c.slot = &g_slots[i % 4096];
        classes.push_back(c);
    }
#ifdef JLL63_YOMM2_VERIF
    policy::fast_perfect_hash<P>::hash_attempt_budget = budget;
#endif
    ++g_transitions;
    bool failed = false;
    try {
        P::publish_vptrs(classes.begin(), classes.end());
    } catch (Thrown& t) {
        if (std::get_if<hash_search_error>(&t.err)) {
            failed = true;
            ++g_search_errors;
        } else {
            // checked publish looks ids up again: an unknown_class_error here
            // means a registered id is not found under the installed hash
            cand("publish_vptrs reported an error other than hash_search_error");
            return true;
        }
    }
    if (failed) {
        // a reported search failure must not leave a hash installed that maps
        // ids to the tables of other classes: with the checked variant every id
        // is either reported as unknown or reaches a table of a class that has
        // this id (in the set just presented or in the last published one)
        if constexpr (is_checked<P>) {
            std::map<type_id, std::set<const std::uintptr_t*>> owners = g_last_owner<P>;
            for (auto& c : classes)
                for (auto id : c.ids)
                    owners[id].insert(c.vptr());
            std::set<type_id> probes = probes_extra;
            for (auto& o : owners)
                probes.insert(o.first);
            for (type_id u = 0; u < 64; ++u)
                probes.insert(u);
            for (auto u : probes) {
                if (u == invalid_type)
                    continue;
                ++g_probes;
                type_id idx;
                try {
                    idx = P::hash_type_id(u);
                } catch (Thrown&) {
                    continue;
                }
                bool ok = idx < P::vptrs.size() && owners.count(u) &&
                    owners[u].count(P::vptrs[idx]);
                if (!ok)
                    cand("after a reported hash_search_error id " + std::to_string(u) +
                         " is accepted and mapped to index " + std::to_string(idx) +
                         (idx < P::vptrs.size() ? ", the table of another class"
                                                : ", outside the vector"));
            }
        }
        return false;
    }
    g_last_owner<P>.clear();
    for (auto& c : classes)
        for (auto id : c.ids)
            g_last_owner<P>[id].insert(c.vptr());
    // (i) perfect on registered ids
    std::map<type_id, size_t> used;
    std::set<type_id> registered;
    for (auto& c : classes)
        for (auto id : c.ids) {
            registered.insert(id);
            type_id idx;
            try {
                idx = P::hash_type_id(id);
            } catch (Thrown&) {
                cand("registered id " + std::to_string(id) + " is reported as unknown");
                continue;
            }
            ++g_transitions;
            if (idx >= P::vptrs.size()) {
                cand("id " + std::to_string(id) + " hashes to " + std::to_string(idx) +
                     " outside the vector of size " + std::to_string(P::vptrs.size()));
                continue;
            }
            auto it = used.find(idx);
            if (it != used.end() && &classes[it->second] != &c) {
                cand("ids of two classes share index " + std::to_string(idx));
                continue;
            }
            used[idx] = &c - &classes[0];
            if (P::vptrs[idx] != c.vptr())
                cand("index " + std::to_string(idx) + " of id " + std::to_string(id) +
                     " does not hold its class's v-table pointer");
            if constexpr (is_ind<P>) {
                if (idx >= P::indirect_vptrs.size() ||
                    P::indirect_vptrs[idx] != c.indirect_vptr())
                    cand("indirect index " + std::to_string(idx) + " wrong");
            }
            if constexpr (is_checked<P>) {
                if (idx >= P::control.size() || P::control[idx] != id)
                    cand("control[" + std::to_string(idx) + "] is not id " + std::to_string(id));
            }
        }
    // two ids of ONE class may not collide either (distinct index per id)
    {
        std::set<type_id> idxs;
        size_t n = 0;
        for (auto id : registered) {
            try {
                idxs.insert(P::hash_type_id(id));
                ++n;
            } catch (Thrown&) {
            }
        }
        if (idxs.size() != n)
            cand("registered ids do not map to pairwise distinct indexes");
    }
    // (ii) the checked variant rejects everything else
    if constexpr (is_checked<P>) {
        std::set<type_id> probes = probes_extra;
        int k = 0;
        for (auto id : registered) {
            if (++k > 64)
                break;
            for (type_id d : {type_id(1), type_id(8), type_id(0) - 1, type_id(0) - 8,
                              type_id(1) << 32, type_id(1) << 63})
                probes.insert(id + d);
        }
        // ids that collide with a registered index by construction: same top
        // bits after multiplication is not invertible cheaply; use multiples
        for (type_id u = 0; u < 64; ++u)
            probes.insert(u);
        for (auto u : probes) {
            if (registered.count(u) || u == invalid_type)
                continue;
            ++g_probes;
            bool reported = false;
            try {
                (void)P::hash_type_id(u);
            } catch (Thrown& t) {
                if (auto e = std::get_if<unknown_class_error>(&t.err))
                    reported = e->type == u;
            }
            if (!reported)
                cand("unregistered id " + std::to_string(u) +
                     " is not reported as unknown_class_error");
        }
    }
    return true;
}

template<class P>
static void reset_policy() {
    policy::fast_perfect_hash<P>::hash_mult = 0;
    policy::fast_perfect_hash<P>::hash_shift = 0;
    policy::fast_perfect_hash<P>::hash_length = 0;
    policy::fast_perfect_hash<P>::hash_min = 0;
    policy::fast_perfect_hash<P>::hash_max = 0;
    P::vptrs.clear();
    g_last_owner<P>.clear();
    if constexpr (is_checked<P>)
        P::control.clear();
    if constexpr (is_ind<P>)
        P::indirect_vptrs.clear();
}

// a history: sequence of (set spec, budget); fresh policy state first
template<class P>
static void run_history(
    const std::vector<std::pair<std::string, size_t>>& hist) {
    ++g_cases;
    reset_policy<P>();
    install_handler<P>();
    std::set<type_id> earlier;
    bool prev_failed = false;
    for (auto& step : hist) {
        auto sets = make_set(step.first);
        bool ok = publish_and_check<P>(sets, step.second, earlier);
        // a reported hash_search_error is a legitimate outcome, also with the
        // default budget (e.g. several hundred unstructured 64-bit ids)
        prev_failed = !ok;
        for (auto& c : sets)
            for (auto id : c)
                earlier.insert(id);
    }
    (void)prev_failed;
}

static std::string hist_text(
    char pol, const std::vector<std::pair<std::string, size_t>>& hist) {
    std::string s(1, pol);
    for (auto& h : hist)
        s += " " + h.first + "@" + std::to_string(h.second);
    return s;
}

static void run_any(char pol, const std::vector<std::pair<std::string, size_t>>& hist) {
    g_case = hist_text(pol, hist);
    if (pol == 'F')
        run_history<PF>(hist);
    else if (pol == 'C')
        run_history<PC>(hist);
    else
        run_history<PI>(hist);
}

// ---------------------------------------------------------------------------
// the alphabet of id sets

static std::vector<std::string> id_set_alphabet(bool thorough, long seed) {
    std::vector<std::string> v;
    std::vector<std::uint64_t> bases = {0, 1, 8, 0x1000, 0x555555550000ull,
                                        1ull << 63, ~0ull - (1ull << 40) + 1};
    std::vector<std::uint64_t> strides = {1, 2, 3, 8, 16, 24, 32, 40, 56, 64, 72};
    for (int k = 12; k <= 60; k += thorough ? 4 : 8)
        strides.push_back(1ull << k);
    for (int k = 4; k <= 40; k += thorough ? 6 : 12)
        strides.push_back((1ull << k) + 8);
    std::vector<std::uint64_t> sizes = {0, 1, 2, 3, 5, 8, 13, 21, 34, 55, 89};
    if (thorough)
        for (auto n : {144, 233, 377, 610})
            sizes.push_back(n);
    else
        sizes.push_back(144);
    for (auto b : bases)
        for (auto s : strides)
            for (auto n : sizes) {
                if (!thorough && n > 34 && (s > 72 && b != 0))
                    continue;
                v.push_back("arith:" + std::to_string(b) + ":" + std::to_string(s) + ":" +
                            std::to_string(n));
            }
    for (auto n : sizes) {
        v.push_back("arith:0:" + std::to_string(1ull << 48) + ":" + std::to_string(n)); // high bits only
        v.push_back("bitrev:" + std::to_string(n));
        v.push_back("multi:4096:16:" + std::to_string(n));
        v.push_back("multi:0:2:" + std::to_string(n));
        v.push_back("two:0:1:" + std::to_string(n) + ":" + std::to_string(1ull << 40) + ":8:" +
                    std::to_string(n));
        v.push_back("two:93824992231424:24:" + std::to_string(n) + ":140737351979008:40:" +
                    std::to_string(n / 2 + 1));
    }
    for (long j = 0; j < (thorough ? 32 : 8); ++j)
        for (auto n : sizes)
            v.push_back("rand:" + std::to_string(seed + j) + ":" + std::to_string(n));
    return v;
}

static const char* HIST_ALPHABET[] = {
    "empty", "arith:0:1:4", "arith:0:1:40", "arith:4096:16:3", "arith:4096:16:30",
    "arith:4096:16:200", "arith:8192:24:17", "rand:5:9", "rand:6:90",
    "two:0:1:5:1099511627776:8:5", "multi:4096:16:12", "arith:0:281474976710656:20",
    // other ids, same number of classes as an entry above (30, 30, 4)
    "arith:8192:24:30", "rand:7:30", "arith:64:8:4"};

int main(int argc, char** argv) {
    std::string mode = argc > 1 ? argv[1] : "sets";
    std::string tier = argc > 2 ? argv[2] : "quick";
    int shard = 0, nshards = 1;
    if (argc > 3)
        sscanf(argv[3], "%d/%d", &shard, &nshards);
    long seed = argc > 4 ? atol(argv[4]) : 0;
    bool thorough = tier == "thorough";

    if (mode == "replay" || mode == "child") {
        // "<P> spec@budget spec@budget ..."
        std::string text = argv[2];
        char pol = text[0];
        std::vector<std::pair<std::string, size_t>> hist;
        size_t i = 2;
        while (i < text.size()) {
            size_t e = text.find(' ', i);
            if (e == std::string::npos)
                e = text.size();
            std::string item = text.substr(i, e - i);
            size_t at = item.find('@');
            hist.push_back({item.substr(0, at), (size_t)atol(item.c_str() + at + 1)});
            i = e + 1;
        }
        if (mode == "child") {
            // handler returns: the library must abort
            reset_policy<PF>();
            PF::error = [](const error_type&) {};
            auto sets = make_set(hist[0].first);
            std::vector<Cls> classes;
            for (size_t k = 0; k < sets.size(); ++k) {
                Cls c;
                c.ids = sets[k];
                c.table = &g_tables[k % 4096];
                g_slots[k % 4096] = c.table;
                c.slot = &g_slots[k % 4096];
                classes.push_back(c);
            }
#ifdef JLL63_YOMM2_VERIF
            policy::fast_perfect_hash<PF>::hash_attempt_budget = hist[0].second;
#endif
            PF::publish_vptrs(classes.begin(), classes.end());
            _exit(0);
        }
        run_any(pol, hist);
        for (auto& c : g_cands)
            printf("VIOL\t%s\n", c.c_str());
        fflush(stdout);
        _exit(g_cands.empty() ? 0 : 1);
    }

    auto alphabet = id_set_alphabet(thorough, seed);
    long idx = 0;
    if (mode == "sets") {
        for (char pol : {'F', 'C', 'I'})
            for (auto& spec : alphabet) {
                if (idx++ % nshards != shard)
                    continue;
                run_any(pol, {{spec, 100000}});
                if (spec.rfind("arith:0:1:", 0) != 0)
                    ++g_nontrivial;
                if (shard == 0 && g_samples.size() < 5 && idx % 301 == 1)
                    g_samples.push_back(g_case);
            }
    } else if (mode == "hist") {
        int depth = thorough ? 4 : 3;
        int na = sizeof(HIST_ALPHABET) / sizeof(HIST_ALPHABET[0]);
        std::vector<int> ix(depth, 0);
        for (char pol : {'C', 'F', 'I'})
            for (int len = 2; len <= depth; ++len) {
                long total = 1;
                for (int i = 0; i < len; ++i)
                    total *= na;
                for (long code = 0; code < total; ++code) {
                    if (idx++ % nshards != shard)
                        continue;
                    if (pol != 'C' && len == depth && !thorough && code % 7)
                        continue; // unchecked variants: every 7th at full depth
                    std::vector<std::pair<std::string, size_t>> hist;
                    long c = code;
                    for (int i = 0; i < len; ++i) {
                        hist.push_back({HIST_ALPHABET[c % na], 100000});
                        c /= na;
                    }
                    run_any(pol, hist);
                    ++g_nontrivial;
                    if (shard == 0 && g_samples.size() < 5 && idx % 97 == 1)
                        g_samples.push_back(g_case);
                }
            }
    } else if (mode == "budget") {
        // every budget x a sub-alphabet; after a failure the default budget
        // must succeed on the same policy state
        std::vector<size_t> budgets = {1, 2, 3, 4, 5, 6, 7, 8, 16, 64};
        for (char pol : {'C', 'F'})
            for (auto& spec : alphabet) {
                if (spec.find(":144") != std::string::npos ||
                    spec.find(":233") != std::string::npos ||
                    spec.find(":377") != std::string::npos ||
                    spec.find(":610") != std::string::npos)
                    continue;
                for (auto b : budgets) {
                    if (idx++ % nshards != shard)
                        continue;
                    run_any(pol, {{spec, b}, {spec, 100000}});
                    // a successful update first: a failing search must not leave
                    // parts of the previous hash behind
                    int np = 0;
                    for (const char* prior : {"rand:6:90", "arith:4096:16:30", "multi:4096:16:12"}) {
                        if (!thorough && (np++ > 0 || (b != 1 && b != 8) || (idx / budgets.size()) % 3))
                            continue;
                        run_any(pol, {{prior, 100000}, {spec, b}});
                        ++g_nontrivial;
                    }
                    ++g_nontrivial;
                    if (shard == 0 && g_samples.size() < 5 && idx % 501 == 1)
                        g_samples.push_back(g_case);
                }
            }
    }
    for (auto& c : g_cands)
        printf("CAND\t%s\n", c.c_str());
    for (auto& s : g_samples)
        printf("SAMPLE\t%s\n", s.c_str());
    printf(
        "SUMMARY\t{\"cases\": %ld, \"nontrivial\": %ld, \"transitions\": %ld, "
        "\"probes\": %ld, \"search_errors\": %ld, \"alphabet\": %zu}\n",
        g_cases, g_nontrivial, g_transitions, g_probes, g_search_errors,
        alphabet.size());
    fflush(stdout);
    _exit(0);
}
