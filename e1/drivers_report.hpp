// drivers_report.hpp - C17: the update report vs an enumeration of all tuples
#pragma once
#include "drivers_perm.hpp"

namespace drv {

struct Truth {
    bool none = false, ambig = false, cnone = false, cambig = false;
};

inline Truth method_truth(const rx::Registry& r, const rx::Meth& m) {
    Truth t;
    rx::for_each_tuple(r.po, m, [&](const int8_t* a) {
        bool concrete = true;
        for (int k = 0; k < m.arity; ++k)
            if (r.abstract_mask >> a[k] & 1)
                concrete = false;
        int e = rx::expected_call(r.po, m, a);
        if (e == rx::O_NONE) {
            t.none = true;
            if (concrete)
                t.cnone = true;
        } else if (e == rx::O_AMBIG) {
            t.ambig = true;
            if (concrete)
                t.cambig = true;
        }
    });
    return t;
}

inline void check_report(const rx::Registry& r, std::vector<Viol>& out) {
    hx::Built b;
    hx::build(r, b);
    COUNT("updates", 1);
    COUNT("registrations", r.nr + r.nm);
    if (!b.ok) {
        out.push_back({"update_failed", "update reported " + err_text(b.err)});
        return;
    }
    Truth all;
    std::size_t cells = 0;
    for (int mi = 0; mi < r.nm; ++mi) {
        const rx::Meth& m = r.meths[mi];
        Truth t = method_truth(r, m);
        all.none |= t.none;
        all.ambig |= t.ambig;
        all.cnone |= t.cnone;
        all.cambig |= t.cambig;
        auto& cm = b.comp->methods[mi];
        if (m.arity > 1)
            cells += cm.dispatch_table.size();
        auto cmp = [&](const char* what, std::size_t got, bool want) {
            COUNT("report_fields", 1);
            if ((got != 0) != want)
                out.push_back(
                    {"wrong_report",
                     std::string("method ") + std::to_string(mi) + " " + what +
                         "=" + std::to_string(got) + " but oracle says " +
                         (want ? "some" : "none")});
        };
        cmp("not_implemented", cm.report.not_implemented, t.none);
        cmp("ambiguous", cm.report.ambiguous, t.ambig);
        cmp("concrete_not_implemented", cm.report.concrete_not_implemented,
            t.cnone);
        cmp("concrete_ambiguous", cm.report.concrete_ambiguous, t.cambig);
        if (m.arity > 1 && cm.report.cells != cm.dispatch_table.size())
            out.push_back(
                {"wrong_cells",
                 "method " + std::to_string(mi) + " cells=" +
                     std::to_string(cm.report.cells) + " table=" +
                     std::to_string(cm.dispatch_table.size())});
    }
    auto& rep = b.comp->report;
    auto cmp = [&](const char* what, std::size_t got, bool want) {
        COUNT("report_fields", 1);
        if ((got != 0) != want)
            out.push_back(
                {"wrong_report",
                 std::string("total ") + what + "=" + std::to_string(got) +
                     " but oracle says " + (want ? "some" : "none")});
    };
    cmp("not_implemented", rep.not_implemented, all.none);
    cmp("ambiguous", rep.ambiguous, all.ambig);
    cmp("concrete_not_implemented", rep.concrete_not_implemented, all.cnone);
    cmp("concrete_ambiguous", rep.concrete_ambiguous, all.cambig);
    if (all.none)
        COUNT("with_gaps", 1);
    if (all.ambig)
        COUNT("with_ambiguities", 1);
    if (all.none != all.cnone || all.ambig != all.cambig)
        COUNT("concrete_differs", 1);
    COUNT("report_fields", 1);
    // cells actually built = cells of the multi-method dispatch tables of the
    // compiler result (the layout of the installed data is not assumed)
    if (rep.cells != cells)
        out.push_back(
            {"wrong_cells",
             "total cells=" + std::to_string(rep.cells) + " tables=" +
                 std::to_string(cells)});
}

inline int report_main() {
    auto& o = run::g_opts;
    run::declare_counters(
        {"registries", "nontrivial", "updates", "registrations",
         "report_fields", "with_gaps", "with_ambiguities", "concrete_differs",
         "mi_registries"});
    if (!o.replay.empty()) {
        run::g_sh = new run::Shared();
        run::g_out = stdout;
        rx::Registry r = rx::from_text(o.replay.c_str());
        std::vector<Viol> v;
        check_report(r, v);
        for (auto& x : v)
            printf("VIOL\t%s\t%s\n", x.kind.c_str(), x.detail.c_str());
        return v.empty() ? 0 : 1;
    }
    auto spaces = parse_spaces(o.space);
    return run::run_sharded([&] {
        long samples = 0;
        for (auto& sp : spaces) {
            bool two = sp.kv.count("two") && atoi(sp.kv.at("two").c_str());
            int extra = hx::shape_index("R", sp.k == 1 ? 1 : 0);
            for_each_single_method_registry(sp, [&](const rx::Registry& r0) {
                rx::Registry r = r0;
                if (two) { // a second unary method with no definition
                    r.nm = 2;
                    rx::Meth& e = r.meths[1];
                    e = rx::Meth();
                    e.shape = extra;
                    e.arity = 1;
                    e.vp[0] = r.po.n - 1;
                    e.nd = 1;
                    e.def[0][0] = e.vp[0];
                }
                for (unsigned am = 0; am < (1u << r.po.n); ++am) {
                    r.abstract_mask = (uint8_t)am;
                    if (!run::g_gate.take(r))
                        continue;
                    COUNT("registries", 1);
                    if (registry_nontrivial(r))
                        COUNT("nontrivial", 1);
                    if (rx::has_mi(r.po))
                        COUNT("mi_registries", 1);
                    std::vector<Viol> v;
                    check_report(r, v);
                    for (auto& x : v)
                        run::candidate(x.kind.c_str(), rx::to_text(r), x.detail);
                    if (o.shard == 0 && samples < 3 && am && r.po.n >= 3 &&
                        r.meths[0].nd >= 2 && run::g_gate.idx % 13 == 0) {
                        ++samples;
                        run::sample(rx::to_text(r));
                    }
                }
            });
        }
    });
}

} // namespace drv
