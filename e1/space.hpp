// space.hpp - enumeration of registry spaces named on the command line
#pragma once
#include "bind.hpp"
#include "runner.hpp"

namespace drv {

inline std::vector<std::string> split(const std::string& s, char sep) {
    std::vector<std::string> out;
    size_t i = 0;
    while (i <= s.size()) {
        size_t e = s.find(sep, i);
        if (e == std::string::npos)
            e = s.size();
        if (e > i)
            out.push_back(s.substr(i, e - i));
        i = e + 1;
    }
    return out;
}

inline std::string get(const char* key, const char* dflt) {
    auto& kv = run::g_opts.kv;
    auto it = kv.find(key);
    return it == kv.end() ? dflt : it->second;
}
inline int geti(const char* key, int dflt) {
    auto& kv = run::g_opts.kv;
    auto it = kv.find(key);
    return it == kv.end() ? dflt : atoi(it->second.c_str());
}
inline void range_of(const std::string& s, int& lo, int& hi) {
    if (sscanf(s.c_str(), "%d-%d", &lo, &hi) == 2)
        return;
    lo = hi = atoi(s.c_str());
}

inline std::vector<int> shapes_named(const std::string& list, int arity) {
    std::vector<int> out;
    if (list == "all") {
        for (int i = 0; i < hx::NUSED && i < hx::SO_BASE; ++i)
            if (hx::shape_arity(i) == arity)
                out.push_back(i);
        return out;
    }
    if (list == "allRN") {
        for (int i = 0; i < hx::NUSED && i < 56; ++i)
            if (hx::shape_arity(i) == arity)
                out.push_back(i);
        return out;
    }
    for (auto& s : split(list, '|')) {
        int nth = 0;
        std::string name = s;
        auto h = s.find('#');
        if (h != std::string::npos) {
            name = s.substr(0, h);
            nth = atoi(s.c_str() + h + 1);
        }
        int i = hx::shape_index(name, nth);
        if (i < 0) {
            fprintf(stderr, "shape %s not available in this build\n", s.c_str());
            exit(2);
        }
        if (hx::shape_arity(i) == arity)
            out.push_back(i);
    }
    return out;
}

inline rx::Presentation pres_named(const std::string& s) {
    if (s == "full")
        return rx::PRES_FULL;
    if (s == "direct")
        return rx::PRES_DIRECT;
    if (s == "noself")
        return rx::PRES_FULL_NOSELF;
    if (s == "split")
        return rx::PRES_SPLIT;
    fprintf(stderr, "unknown presentation %s\n", s.c_str());
    exit(2);
}

// several spaces separated by ';' are given through --space; each is a kv
// list.  n=lo-hi k=arity d=maxdefs shapes=..|.. pres=..|.. rev=0|1
struct SpaceSpec {
    int nlo = 1, nhi = 3, k = 1, d = 2;
    std::string shapes = "allRN";
    std::vector<rx::Presentation> pres{rx::PRES_FULL};
    std::vector<int> rev{0};
    std::map<std::string, std::string> kv;
};

inline std::vector<SpaceSpec> parse_spaces(const std::string& text) {
    std::vector<SpaceSpec> out;
    for (auto& part : split(text, ';')) {
        SpaceSpec sp;
        run::parse_kv(part, sp.kv);
        auto has = [&](const char* k) { return sp.kv.count(k) > 0; };
        if (has("n"))
            range_of(sp.kv["n"], sp.nlo, sp.nhi);
        if (has("k"))
            sp.k = atoi(sp.kv["k"].c_str());
        if (has("d"))
            sp.d = atoi(sp.kv["d"].c_str());
        if (has("shapes"))
            sp.shapes = sp.kv["shapes"];
        if (has("pres")) {
            sp.pres.clear();
            for (auto& p : split(sp.kv["pres"], '|'))
                sp.pres.push_back(pres_named(p));
        }
        if (has("rev")) {
            sp.rev.clear();
            for (auto& p : split(sp.kv["rev"], '|'))
                sp.rev.push_back(atoi(p.c_str()));
        }
        out.push_back(sp);
    }
    return out;
}

// one-method registries: posets x shapes x presentations x vp x defsets
template<class F>
void for_each_single_method_registry(const SpaceSpec& sp, F&& f) {
    auto shapes = shapes_named(sp.shapes, sp.k);
    if (shapes.empty()) {
        fprintf(stderr, "no shape of arity %d in '%s'\n", sp.k, sp.shapes.c_str());
        exit(2);
    }
    for (int n = sp.nlo; n <= sp.nhi; ++n)
        rx::for_each_poset(n, [&](const rx::Poset& po) {
            rx::Registry r;
            r.po = po;
            r.nm = 1;
            rx::Meth& m = r.meths[0];
            rx::for_each_vp(n, sp.k, m, [&] {
                auto legal = rx::legal_defs(po, sp.k, m.vp);
                rx::for_each_defset(legal, sp.d, m, [&] {
                    for (int shape : shapes)
                        for (auto pres : sp.pres)
                            for (int rev : sp.rev) {
                                m.shape = shape;
                                rx::present(r, pres, rev);
                                f(r);
                            }
                });
            });
        });
}

inline std::string tuple_text(const int8_t* a, int k) {
    std::string s;
    for (int i = 0; i < k; ++i)
        s += (i ? "," : "") + std::to_string((int)a[i]);
    return s;
}

inline bool registry_nontrivial(const rx::Registry& r) {
    if (rx::has_mi(r.po))
        return true;
    bool nt = false;
    for (int mi = 0; mi < r.nm && !nt; ++mi) {
        const rx::Meth& m = r.meths[mi];
        rx::for_each_tuple(r.po, m, [&](const int8_t* a) {
            unsigned s = rx::applicable_set(r.po, m, a);
            if (__builtin_popcount(s) != 1)
                nt = true;
        });
    }
    return nt;
}

} // namespace drv
