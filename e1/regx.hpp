// regx.hpp - abstract registries, their enumeration, and the reference model.
// Policy independent, library independent. See DESIGN.md section 2.1.
#pragma once
#include <algorithm>
#include <array>
#include <cstdint>
#include <cstdio>
#include <cstdlib>
#include <cstring>
#include <functional>
#include <string>
#include <vector>

namespace rx {

constexpr int MAXC = 8; // classes
constexpr int MAXA = 4; // virtual arity
constexpr int MAXD = 6; // definitions per method
constexpr int MAXM = 3; // methods per registry
constexpr int MAXR = 16; // class records

// ---------------------------------------------------------------------------
// posets: class d may only have bases with smaller labels ("naturally
// labelled"); up[d] = bit set of *proper* bases, transitively closed.

struct Poset {
    int n = 0;
    uint8_t up[MAXC] = {};
};

inline bool lt(const Poset& p, int d, int b) { // d is a proper derived of b
    return (p.up[d] >> b) & 1;
}
inline bool le(const Poset& p, int d, int b) {
    return d == b || lt(p, d, b);
}
inline uint8_t direct_bases(const Poset& p, int d) {
    uint8_t r = 0;
    for (int b = 0; b < p.n; ++b)
        if (lt(p, d, b)) {
            bool direct = true;
            for (int x = 0; x < p.n; ++x)
                if (lt(p, d, x) && lt(p, x, b))
                    direct = false;
            if (direct)
                r |= 1 << b;
        }
    return r;
}
inline uint8_t down(const Poset& p, int b) { // classes <= b (incl. b)
    uint8_t r = 0;
    for (int d = 0; d < p.n; ++d)
        if (le(p, d, b))
            r |= 1 << d;
    return r;
}
inline bool has_mi(const Poset& p) {
    for (int d = 0; d < p.n; ++d)
        if (__builtin_popcount(direct_bases(p, d)) > 1)
            return true;
    return false;
}

// enumerate all naturally labelled posets with exactly n elements
template<class F>
void for_each_poset(int n, F&& f) {
    Poset p;
    p.n = n;
    std::function<void(int)> rec = [&](int d) {
        if (d == n) {
            f(p);
            return;
        }
        for (unsigned s = 0; s < (1u << d); ++s) {
            // s must be up-closed: b in s => up[b] subset of s
            bool ok = true;
            for (int b = 0; b < d && ok; ++b)
                if ((s >> b & 1) && (p.up[b] & ~s))
                    ok = false;
            if (!ok)
                continue;
            p.up[d] = (uint8_t)s;
            rec(d + 1);
        }
        p.up[d] = 0;
    };
    rec(0);
}

// ---------------------------------------------------------------------------
// registry

struct Rec { // one class registration record
    int cls = 0;
    int nb = 0;
    int8_t bases[MAXC + 2] = {}; // listed "bases" in order (may include cls)
    int8_t alias = 0;            // which id of the class the record uses (prj)
    uint16_t base_alias = 0;     // bit i: alias used for bases[i]
};

struct Meth {
    int shape = 0; // index into the harness' shape table
    int arity = 0;
    int8_t vp[MAXA] = {};
    int nd = 0;
    int8_t def[MAXD][MAXA] = {};
    uint8_t vp_alias = 0;        // bit i: alias of vp[i]
    uint8_t def_alias[MAXD] = {}; // bit i: alias of def[j][i]
};

struct Registry {
    Poset po;
    uint8_t abstract_mask = 0;
    int nr = 0;
    Rec recs[MAXR];
    int nm = 0;
    Meth meths[MAXM];
};

enum Presentation { PRES_FULL = 0, PRES_DIRECT = 1, PRES_FULL_NOSELF = 2, PRES_SPLIT = 3 };

// default presentations: one record per class, in label order
inline void present(Registry& r, Presentation pres, bool reverse = false) {
    if (pres == PRES_SPLIT) {
        // the incremental style: one record per (class, direct base) pair,
        // each listing the class itself and that base
        r.nr = 0;
        for (int i = 0; i < r.po.n; ++i) {
            int c = reverse ? r.po.n - 1 - i : i;
            uint8_t bs = direct_bases(r.po, c);
            bool any = false;
            for (int b = 0; b < r.po.n; ++b)
                if ((bs >> b & 1) && r.nr < MAXR) {
                    Rec& rec = r.recs[r.nr++];
                    rec = Rec();
                    rec.cls = c;
                    rec.bases[rec.nb++] = c;
                    rec.bases[rec.nb++] = b;
                    any = true;
                }
            if (!any && r.nr < MAXR) {
                Rec& rec = r.recs[r.nr++];
                rec = Rec();
                rec.cls = c;
                rec.bases[rec.nb++] = c;
            }
        }
        return;
    }
    r.nr = r.po.n;
    for (int i = 0; i < r.po.n; ++i) {
        int c = reverse ? r.po.n - 1 - i : i;
        Rec& rec = r.recs[i];
        rec = Rec();
        rec.cls = c;
        uint8_t bs = pres == PRES_DIRECT ? direct_bases(r.po, c) : r.po.up[c];
        if (pres == PRES_FULL) // use_classes lists the class itself too
            bs |= 1 << c;
        for (int b = 0; b < r.po.n; ++b) {
            int bb = reverse ? r.po.n - 1 - b : b;
            if (bs >> bb & 1)
                rec.bases[rec.nb++] = bb;
        }
    }
}

// ---------------------------------------------------------------------------
// reference model

enum Outcome : int { O_NONE = -1, O_AMBIG = -2, O_ERR = -3 /* other */ };

inline bool applicable(const Poset& p, const Meth& m, int d, const int8_t* a) {
    for (int i = 0; i < m.arity; ++i)
        if (!le(p, a[i], m.def[d][i]))
            return false;
    return true;
}
// d more specific than e: some position properly derived, none properly base
inline bool more_specific(const Poset& p, int k, const int8_t* d, const int8_t* e) {
    bool some = false;
    for (int i = 0; i < k; ++i) {
        if (lt(p, d[i], e[i]))
            some = true;
        else if (lt(p, e[i], d[i]))
            return false;
    }
    return some;
}
// selection among a candidate set (bit set of definition indexes)
inline int select(const Poset& p, const Meth& m, unsigned cands) {
    if (!cands)
        return O_NONE;
    for (int d = 0; d < m.nd; ++d)
        if (cands >> d & 1) {
            bool all = true;
            for (int e = 0; e < m.nd && all; ++e)
                if (e != d && (cands >> e & 1) &&
                    !more_specific(p, m.arity, m.def[d], m.def[e]))
                    all = false;
            if (all)
                return d;
        }
    return O_AMBIG;
}
inline unsigned applicable_set(const Poset& p, const Meth& m, const int8_t* a) {
    unsigned s = 0;
    for (int d = 0; d < m.nd; ++d)
        if (applicable(p, m, d, a))
            s |= 1u << d;
    return s;
}
inline int expected_call(const Poset& p, const Meth& m, const int8_t* a) {
    return select(p, m, applicable_set(p, m, a));
}
inline int expected_next(const Poset& p, const Meth& m, int d) {
    unsigned s = 0;
    for (int e = 0; e < m.nd; ++e) {
        if (e == d)
            continue;
        bool all = true, strict = false;
        for (int i = 0; i < m.arity; ++i) {
            if (!le(p, m.def[d][i], m.def[e][i]))
                all = false;
            else if (m.def[d][i] != m.def[e][i])
                strict = true;
        }
        if (all && strict)
            s |= 1u << e;
    }
    return select(p, m, s);
}

// iterate over all legal argument tuples of a method (a[i] <= vp[i])
template<class F>
void for_each_tuple(const Poset& p, const Meth& m, F&& f) {
    int8_t a[MAXA] = {};
    std::function<void(int)> rec = [&](int i) {
        if (i == m.arity) {
            f((const int8_t*)a);
            return;
        }
        for (int c = 0; c < p.n; ++c)
            if (le(p, c, m.vp[i])) {
                a[i] = c;
                rec(i + 1);
            }
    };
    rec(0);
}

// all legal definition tuples for parameter classes vp
inline std::vector<std::array<int8_t, MAXA>>
legal_defs(const Poset& p, int arity, const int8_t* vp) {
    std::vector<std::array<int8_t, MAXA>> out;
    Meth m;
    m.arity = arity;
    memcpy(m.vp, vp, MAXA);
    for_each_tuple(p, m, [&](const int8_t* a) {
        std::array<int8_t, MAXA> t{};
        for (int i = 0; i < arity; ++i)
            t[i] = a[i];
        out.push_back(t);
    });
    return out;
}

// every multiset of size 0..maxd of legal definitions (non-decreasing index
// sequences, i.e. duplicates included, order excluded)
template<class F>
void for_each_defset(
    const std::vector<std::array<int8_t, MAXA>>& legal, int maxd, Meth& m, F&& f) {
    std::function<void(int, int)> rec = [&](int k, int from) {
        m.nd = k;
        f();
        if (k == maxd)
            return;
        for (int i = from; i < (int)legal.size(); ++i) {
            memcpy(m.def[k], legal[i].data(), MAXA);
            rec(k + 1, i);
            m.nd = k;
        }
    };
    rec(0, 0);
}

// every parameter-class tuple of a method of given arity
template<class F>
void for_each_vp(int n, int arity, Meth& m, F&& f) {
    m.arity = arity;
    std::function<void(int)> rec = [&](int i) {
        if (i == arity) {
            f();
            return;
        }
        for (int c = 0; c < n; ++c) {
            m.vp[i] = c;
            rec(i + 1);
        }
    };
    rec(0);
}

// ---------------------------------------------------------------------------
// textual form (replay files, second oracle)
//   P n u0 u1 .. | A mask | R cls.alias:b,b,..[@basealias] ; ... |
//   M shape.arity:vp,vp[@a]:d,d[@a]/d,d ; ...

inline std::string to_text(const Registry& r) {
    std::string s = "P " + std::to_string(r.po.n);
    for (int i = 0; i < r.po.n; ++i)
        s += " " + std::to_string(r.po.up[i]);
    s += " | A " + std::to_string(r.abstract_mask) + " | R";
    for (int i = 0; i < r.nr; ++i) {
        const Rec& rec = r.recs[i];
        s += (i ? " ; " : " ") + std::to_string(rec.cls) + "." +
            std::to_string(rec.alias) + ":";
        for (int b = 0; b < rec.nb; ++b)
            s += (b ? "," : "") + std::to_string(rec.bases[b]);
        s += "@" + std::to_string(rec.base_alias);
    }
    s += " | M";
    for (int i = 0; i < r.nm; ++i) {
        const Meth& m = r.meths[i];
        s += (i ? " ; " : " ") + std::to_string(m.shape) + "." +
            std::to_string(m.arity) + ":";
        for (int k = 0; k < m.arity; ++k)
            s += (k ? "," : "") + std::to_string(m.vp[k]);
        s += "@" + std::to_string(m.vp_alias) + ":";
        for (int d = 0; d < m.nd; ++d) {
            if (d)
                s += "/";
            for (int k = 0; k < m.arity; ++k)
                s += (k ? "," : "") + std::to_string(m.def[d][k]);
            s += "@" + std::to_string(m.def_alias[d]);
        }
    }
    return s;
}

struct Scanner {
    const char* p;
    void ws() {
        while (*p == ' ')
            ++p;
    }
    bool eat(char c) {
        ws();
        if (*p == c) {
            ++p;
            return true;
        }
        return false;
    }
    bool peek(char c) {
        ws();
        return *p == c;
    }
    long num() {
        ws();
        char* e;
        long v = strtol(p, &e, 10);
        if (e == p) {
            fprintf(stderr, "parse error at '%s'\n", p);
            exit(2);
        }
        p = e;
        return v;
    }
    bool isnum() {
        ws();
        return (*p >= '0' && *p <= '9') || *p == '-';
    }
};

inline Registry from_text(const char* text) {
    Registry r;
    Scanner s{text};
    if (!s.eat('P')) {
        fprintf(stderr, "bad registry text\n");
        exit(2);
    }
    r.po.n = (int)s.num();
    for (int i = 0; i < r.po.n; ++i)
        r.po.up[i] = (uint8_t)s.num();
    s.eat('|');
    s.eat('A');
    r.abstract_mask = (uint8_t)s.num();
    s.eat('|');
    s.eat('R');
    while (s.isnum()) {
        Rec& rec = r.recs[r.nr++];
        rec.cls = (int)s.num();
        s.eat('.');
        rec.alias = (int8_t)s.num();
        s.eat(':');
        while (s.isnum()) {
            rec.bases[rec.nb++] = (int8_t)s.num();
            s.eat(',');
        }
        if (s.eat('@'))
            rec.base_alias = (uint16_t)s.num();
        s.eat(';');
    }
    s.eat('|');
    s.eat('M');
    while (s.isnum()) {
        Meth& m = r.meths[r.nm++];
        m.shape = (int)s.num();
        s.eat('.');
        m.arity = (int)s.num();
        s.eat(':');
        for (int k = 0; k < m.arity; ++k) {
            m.vp[k] = (int8_t)s.num();
            s.eat(',');
        }
        if (s.eat('@'))
            m.vp_alias = (uint8_t)s.num();
        s.eat(':');
        while (s.isnum()) {
            for (int k = 0; k < m.arity; ++k) {
                m.def[m.nd][k] = (int8_t)s.num();
                s.eat(',');
            }
            if (s.eat('@'))
                m.def_alias[m.nd] = (uint8_t)s.num();
            ++m.nd;
            s.eat('/');
        }
        s.eat(';');
    }
    return r;
}

} // namespace rx
