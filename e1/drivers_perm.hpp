// drivers_perm.hpp - C06 (registration order) and C08 (presentations of the
// inheritance graph).
#pragma once
#include "drivers_slots.hpp"

namespace drv {

// signature of every order-free observable of a registry, with definitions
// named by `orig` (their index in the unpermuted registry)
inline std::string outcome_signature(
    const rx::Registry& r, const std::vector<std::vector<int>>& orig,
    const std::vector<int>& morig) {
    std::vector<std::string> per_method(r.nm);
    for (int mi = 0; mi < r.nm; ++mi) {
        const rx::Meth& m = r.meths[mi];
        std::string s;
        auto name = [&](int o) { return o >= 0 ? orig[mi][o] : o; };
        rx::for_each_tuple(r.po, m, [&](const int8_t* a) {
            hx::set_dyn(a, m.arity);
            hx::Obs ob = hx::observe_call(m, a);
            COUNT("calls", 2);
            s += std::to_string(name(ob.outcome)) + "/" +
                std::to_string(name(ob.resolved)) + ",";
        });
        s += "|";
        std::vector<std::pair<int, int>> nx;
        for (int di = 0; di < m.nd; ++di)
            nx.push_back({orig[mi][di], name(hx::observed_next(m, di))});
        std::sort(nx.begin(), nx.end());
        for (auto& p : nx)
            s += std::to_string(p.first) + ">" + std::to_string(p.second) + ",";
        per_method[morig[mi]] = s;
    }
    std::string all;
    for (auto& s : per_method)
        all += s + "#";
    return all;
}

inline void rotate_bases(rx::Registry& r, int k) {
    for (int i = 0; i < r.nr; ++i) {
        rx::Rec& rec = r.recs[i];
        if (rec.nb > 1)
            std::rotate(rec.bases, rec.bases + (k % rec.nb), rec.bases + rec.nb);
    }
}

// checks one base registry under all the permutations the spec asks for
inline void check_perm(
    const rx::Registry& base, const SpaceSpec& sp, std::vector<Viol>& out) {
    std::string cperm = sp.kv.count("cperm") ? sp.kv.at("cperm") : "all";
    int brot = sp.kv.count("brot") ? atoi(sp.kv.at("brot").c_str()) : 0;

    std::vector<int> corder(base.nr);
    for (int i = 0; i < base.nr; ++i)
        corder[i] = i;
    std::vector<std::vector<int>> corders;
    if (cperm == "all") {
        do
            corders.push_back(corder);
        while (std::next_permutation(corder.begin(), corder.end()));
    } else {
        corders.push_back(corder);
        std::reverse(corder.begin(), corder.end());
        if (base.nr > 1)
            corders.push_back(corder);
        if (cperm == "rot")
            for (int k = 1; k < base.nr; ++k) {
                std::vector<int> c(base.nr);
                for (int i = 0; i < base.nr; ++i)
                    c[i] = (i + k) % base.nr;
                corders.push_back(c);
            }
    }
    std::vector<int> mo(base.nm);
    for (int i = 0; i < base.nm; ++i)
        mo[i] = i;
    std::string first_sig;
    bool have_first = false;
    std::string first_desc;

    do { // method orders
        // definition orders of method 0 (the other methods have <= 1)
        std::vector<int> dord(base.meths[0].nd);
        for (int i = 0; i < (int)dord.size(); ++i)
            dord[i] = i;
        do {
            for (auto& co : corders)
                for (int rot = 0; rot <= brot; ++rot) {
                    rx::Registry r = base;
                    for (int i = 0; i < base.nr; ++i)
                        r.recs[i] = base.recs[co[i]];
                    rotate_bases(r, rot);
                    std::vector<std::vector<int>> orig(base.nm);
                    std::vector<int> morig(base.nm);
                    for (int i = 0; i < base.nm; ++i) {
                        r.meths[i] = base.meths[mo[i]];
                        morig[i] = mo[i];
                        orig[i].resize(r.meths[i].nd);
                        for (int d = 0; d < r.meths[i].nd; ++d)
                            orig[i][d] = d;
                        if (mo[i] == 0) {
                            for (int d = 0; d < r.meths[i].nd; ++d) {
                                memcpy(
                                    r.meths[i].def[d],
                                    base.meths[0].def[dord[d]], rx::MAXA);
                                orig[i][d] = dord[d];
                            }
                        }
                    }
                    COUNT("permutations", 1);
                    std::vector<Viol> v;
                    check_dispatch(r, "C01,C03", v);
                    for (auto& x : v)
                        out.push_back(
                            {"order:" + x.kind,
                             "permuted=" + rx::to_text(r) + " " + x.detail});
                    if (!v.empty())
                        continue;
                    std::string sig = outcome_signature(r, orig, morig);
                    if (!have_first) {
                        have_first = true;
                        first_sig = sig;
                        first_desc = rx::to_text(r);
                    } else if (sig != first_sig) {
                        out.push_back(
                            {"order_dependent",
                             "first=" + first_desc + " permuted=" +
                                 rx::to_text(r) + " sig1=" + first_sig +
                                 " sig2=" + sig});
                    }
                }
        } while (std::next_permutation(dord.begin(), dord.end()));
    } while (std::next_permutation(mo.begin(), mo.end()));
}

inline int perm_main() {
    auto& o = run::g_opts;
    declare_dispatch_counters();
    run::declare_counters({"permutations"});
    auto spaces = parse_spaces(o.space);
    if (!o.replay.empty()) {
        run::g_sh = new run::Shared();
        run::g_out = stdout;
        rx::Registry r = rx::from_text(o.replay.c_str());
        std::vector<Viol> v;
        SpaceSpec sp = spaces.empty() ? SpaceSpec() : spaces[0];
        check_perm(r, sp, v);
        for (auto& x : v)
            printf("VIOL\t%s\t%s\n", x.kind.c_str(), x.detail.c_str());
        return v.empty() ? 0 : 1;
    }
    return run::run_sharded([&] {
        long samples = 0;
        for (auto& sp : spaces) {
            if (sp.kv.count("set")) {
                // method sets (as in C04) under every record / method order
                for_each_method_set_registry(sp, [&](const rx::Registry& r) {
                    if (!run::g_gate.take(r))
                        return;
                    COUNT("registries", 1);
                    if (rx::has_mi(r.po)) {
                        COUNT("mi_registries", 1);
                        COUNT("nontrivial", 1);
                    }
                    std::vector<Viol> v;
                    check_perm(r, sp, v);
                    for (auto& x : v)
                        run::candidate(x.kind.c_str(), rx::to_text(r), x.detail);
                });
                continue;
            }
            int extra = hx::shape_index("R", sp.k == 1 ? 1 : 0);
            for_each_single_method_registry(sp, [&](const rx::Registry& r0) {
                if (!run::g_gate.take(r0))
                    return;
                rx::Registry r = r0;
                // a second (unary) method sharing a class with the first, so
                // that method order matters to slot allocation
                r.nm = 2;
                rx::Meth& e = r.meths[1];
                e = rx::Meth();
                e.shape = extra;
                e.arity = 1;
                e.vp[0] = r.meths[0].vp[0];
                e.nd = 1;
                e.def[0][0] = e.vp[0];
                run::g_sh->current = r;
                COUNT("registries", 1);
                if (registry_nontrivial(r))
                    COUNT("nontrivial", 1);
                if (rx::has_mi(r.po))
                    COUNT("mi_registries", 1);
                std::vector<Viol> v;
                check_perm(r, sp, v);
                for (auto& x : v)
                    run::candidate(x.kind.c_str(), rx::to_text(r), x.detail);
                if (o.shard == 0 && samples < 3 && r.po.n >= 3 &&
                    r.meths[0].nd >= 2 && run::g_gate.idx % 7 == 0) {
                    ++samples;
                    run::sample(rx::to_text(r));
                }
            });
        }
    });
}

// ---------------------------------------------------------------------------
// C08 presentations

struct PresOpts {
    bool subsets = true, self = true, dup = true, split = true;
    int rot = 1;
};

// all ways to present class c: a list of alternatives, each 1 or 2 records
inline std::vector<std::vector<rx::Rec>>
class_presentations(const rx::Poset& po, int c, const PresOpts& po_) {
    std::vector<std::vector<rx::Rec>> alts;
    uint8_t direct = rx::direct_bases(po, c);
    uint8_t trans = po.up[c];
    uint8_t optional = trans & ~direct;
    auto mk = [&](uint8_t set, bool self, bool dup) {
        rx::Rec rec;
        rec.cls = c;
        if (self)
            rec.bases[rec.nb++] = c;
        int first = -1;
        for (int b = 0; b < po.n; ++b)
            if (set >> b & 1) {
                if (first < 0)
                    first = b;
                rec.bases[rec.nb++] = b;
            }
        if (dup && first >= 0)
            rec.bases[rec.nb++] = first;
        return rec;
    };
    // iterate subsets of optional
    uint8_t sub = 0;
    do {
        uint8_t S = direct | sub;
        for (int self = 0; self <= (po_.self ? 1 : 0); ++self)
            for (int dup = 0; dup <= (po_.dup && S ? 1 : 0); ++dup) {
                alts.push_back({mk(S, self, dup)});
                if (po_.split && __builtin_popcount(S) >= 2 && !dup) {
                    // unordered 2-partitions of S: A contains the lowest bit
                    uint8_t low = S & -S, rest = S & ~low;
                    uint8_t a = 0;
                    do {
                        uint8_t A = low | a, B = S & ~A;
                        if (B)
                            alts.push_back({mk(A, self, 0), mk(B, self, 0)});
                        a = (a - rest) & rest;
                    } while (a);
                }
            }
        if (!po_.subsets)
            break;
        sub = (sub - optional) & optional;
    } while (sub);
    return alts;
}

template<class F>
void for_each_presentation(rx::Registry& r, const PresOpts& po_, F&& f) {
    std::vector<std::vector<std::vector<rx::Rec>>> alts;
    for (int c = 0; c < r.po.n; ++c)
        alts.push_back(class_presentations(r.po, c, po_));
    std::function<void(int)> rec = [&](int c) {
        if (c == r.po.n) {
            for (int rot = 0; rot <= po_.rot; ++rot) {
                rx::Registry rr = r;
                rotate_bases(rr, rot);
                f(rr);
            }
            return;
        }
        for (auto& alt : alts[c]) {
            int save = r.nr;
            if (r.nr + (int)alt.size() > rx::MAXR)
                continue;
            for (auto& x : alt)
                r.recs[r.nr++] = x;
            rec(c + 1);
            r.nr = save;
        }
    };
    r.nr = 0;
    rec(0);
}

inline void check_lattice(
    const rx::Registry& r, const hx::Built& b, std::vector<Viol>& out) {
    for (int c = 0; c < r.po.n; ++c) {
        const gc::class_* cc = comp_class(b, c);
        if (!cc) {
            out.push_back({"class_missing", "class " + std::to_string(c)});
            continue;
        }
        uint8_t cov = 0, dir = 0;
        for (auto x : cc->covariant_classes)
            cov |= 1 << hx::label_of(*x);
        for (auto x : cc->direct_bases)
            dir |= 1 << hx::label_of(*x);
        if (cov != rx::down(r.po, c))
            out.push_back(
                {"wrong_covariant_set",
                 "class=" + std::to_string(c) + " got=" + std::to_string(cov) +
                     " expected=" + std::to_string(rx::down(r.po, c))});
        if (dir != rx::direct_bases(r.po, c) ||
            cc->direct_bases.size() !=
                (size_t)__builtin_popcount(rx::direct_bases(r.po, c)))
            out.push_back(
                {"wrong_direct_bases",
                 "class=" + std::to_string(c) + " got=" + std::to_string(dir) +
                     " expected=" +
                     std::to_string(rx::direct_bases(r.po, c))});
    }
}

inline void check_pres(const rx::Registry& r, std::vector<Viol>& out) {
    // lattice reconstruction (from the compiler object) ...
    {
        hx::Built b;
        hx::build(r, b);
        COUNT("updates", 1);
        if (!b.ok) {
            out.push_back(
                {"update_failed", "update reported " + err_text(b.err)});
            return;
        }
        check_lattice(r, b, out);
    }
    if (!out.empty())
        return;
    // ... slots (C04's disjointness) and dispatch + next vs the model
    if (r.nm) {
        check_slots(r, out, false);
        if (out.empty())
            check_dispatch(r, "C01,C03", out);
    }
}

inline int pres_main() {
    auto& o = run::g_opts;
    declare_dispatch_counters();
    run::declare_counters({"slot_cells", "walks", "presentations", "posets"});
    if (!o.replay.empty()) {
        run::g_sh = new run::Shared();
        run::g_out = stdout;
        rx::Registry r = rx::from_text(o.replay.c_str());
        std::vector<Viol> v;
        check_pres(r, v);
        for (auto& x : v)
            printf("VIOL\t%s\t%s\n", x.kind.c_str(), x.detail.c_str());
        return v.empty() ? 0 : 1;
    }
    auto spaces = parse_spaces(o.space);
    return run::run_sharded([&] {
        long samples = 0;
        for (auto& sp : spaces) {
            PresOpts po_;
            auto flag = [&](const char* k, bool dflt) {
                return sp.kv.count(k) ? atoi(sp.kv.at(k).c_str()) != 0 : dflt;
            };
            po_.subsets = flag("subsets", true);
            po_.self = flag("self", true);
            po_.dup = flag("dup", true);
            po_.split = flag("split", true);
            po_.rot = sp.kv.count("rot") ? atoi(sp.kv.at("rot").c_str()) : 1;
            std::string mode = sp.kv.count("mode") ? sp.kv.at("mode") : "UB";
            bool allorders = flag("orders", false);
            int sU = hx::shape_index("R"), sB = hx::shape_index("RR");
            for (int n = sp.nlo; n <= sp.nhi; ++n)
                rx::for_each_poset(n, [&](const rx::Poset& po) {
                    rx::Registry r;
                    r.po = po;
                    for_each_presentation(r, po_, [&](rx::Registry& rp) {
                        auto run_one = [&](rx::Registry& rr) {
                            if (!run::g_gate.take(rr))
                                return;
                            COUNT("registries", 1);
                            COUNT("presentations", 1);
                            if (rx::has_mi(rr.po)) {
                                COUNT("mi_registries", 1);
                                COUNT("nontrivial", 1);
                            }
                            std::vector<Viol> v;
                            check_pres(rr, v);
                            for (auto& x : v)
                                run::candidate(
                                    x.kind.c_str(), rx::to_text(rr), x.detail);
                            if (o.shard == 0 && samples < 4 &&
                                rx::has_mi(rr.po) && rr.nr > rr.po.n) {
                                ++samples;
                                run::sample(rx::to_text(rr));
                            }
                        };
                        auto with_orders = [&](rx::Registry& rr) {
                            if (!allorders) {
                                run_one(rr);
                                rx::Registry rv = rr;
                                std::reverse(rv.recs, rv.recs + rv.nr);
                                if (rr.nr > 1)
                                    run_one(rv);
                                return;
                            }
                            std::vector<int> ord(rr.nr);
                            for (int i = 0; i < rr.nr; ++i)
                                ord[i] = i;
                            do {
                                rx::Registry rv = rr;
                                for (int i = 0; i < rr.nr; ++i)
                                    rv.recs[i] = rr.recs[ord[i]];
                                run_one(rv);
                            } while (
                                std::next_permutation(ord.begin(), ord.end()));
                        };
                        if (mode == "none") {
                            rp.nm = 0;
                            with_orders(rp);
                            return;
                        }
                        if (mode == "UU") {
                            // two unary methods, every parameter assignment,
                            // one definition each: slot allocation
                            rp.nm = 2;
                            rx::Meth& u1 = rp.meths[0];
                            rx::Meth& u2 = rp.meths[1];
                            u1 = rx::Meth();
                            u2 = rx::Meth();
                            u1.shape = sU;
                            u2.shape = hx::shape_index("R", 1);
                            rx::for_each_vp(n, 1, u1, [&] {
                                u1.nd = 1;
                                u1.def[0][0] = u1.vp[0];
                                rx::for_each_vp(n, 1, u2, [&] {
                                    u2.nd = 1;
                                    u2.def[0][0] = u2.vp[0];
                                    with_orders(rp);
                                });
                            });
                            return;
                        }
                        // one unary + one binary method, every parameter
                        // assignment, <= d definitions on the binary one
                        rp.nm = 2;
                        rx::Meth& u = rp.meths[0];
                        rx::Meth& bm = rp.meths[1];
                        u = rx::Meth();
                        bm = rx::Meth();
                        u.shape = sU;
                        bm.shape = sB;
                        rx::for_each_vp(n, 1, u, [&] {
                            u.nd = 1;
                            u.def[0][0] = u.vp[0];
                            rx::for_each_vp(n, 2, bm, [&] {
                                auto legal = rx::legal_defs(po, 2, bm.vp);
                                rx::for_each_defset(legal, sp.d, bm, [&] {
                                    with_orders(rp);
                                });
                            });
                        });
                    });
                });
        }
    });
}

} // namespace drv
