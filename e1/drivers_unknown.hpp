// drivers_unknown.hpp - C15: checked policies diagnose every use of an
// unregistered class. Meant for the `dbg` tag (stock policy::debug rebound).
#pragma once
#include "drivers_report.hpp"

namespace drv {

// virtual_ptr built from an object whose static type is exactly its dynamic
// type (the constructor's static shortcut)
template<int I>
int exact_route(hx::Obj* o, int shape_unary_V) {
    using namespace yorel::yomm2;
    auto& k = *static_cast<hx::K<I>*>(o);
    virtual_ptr<hx::K<I>, hx::P> p(k);
    virtual_ptr<hx::Obj, hx::P> q(p);
    return hx::method_of<3 + 56>::fn(q); // shape "V" (index 59)
}
static_assert(hx::SHAPES[59] == "V");
template<int... I>
constexpr std::array<int (*)(hx::Obj*, int), hx::NK>
make_exact(std::integer_sequence<int, I...>) {
    return {exact_route<I>...};
}
inline constexpr auto g_exact =
    make_exact(std::make_integer_sequence<int, hx::NK>());

struct F0 {
    virtual ~F0() {
    }
};
struct F1 : F0 {};

// what a process that has not run update yet has: an empty control table
template<class Pol>
auto forget_hash_state(int) -> decltype((void)Pol::control.clear()) {
    Pol::control.clear();
    Pol::vptrs.clear();
}
template<class Pol>
void forget_hash_state(long) {
}


inline bool is_unknown_for(
    const std::optional<hx::error_type>& e, int cls) {
    using namespace yorel::yomm2;
    if (!e)
        return false;
    auto u = std::get_if<unknown_class_error>(&*e);
    return u && (u->type == hx::g_ids[cls][0] || u->type == hx::g_ids[cls][1]);
}

inline void strip_class(rx::Registry& r, int x) {
    int w = 0;
    for (int i = 0; i < r.nr; ++i) {
        if (r.recs[i].cls == x)
            continue;
        rx::Rec rec = r.recs[i];
        int nb = 0;
        for (int b = 0; b < rec.nb; ++b)
            if (rec.bases[b] != x)
                rec.bases[nb++] = rec.bases[b];
        rec.nb = nb;
        r.recs[w++] = rec;
    }
    r.nr = w;
}

inline void check_unknown(
    const rx::Registry& r, int x, std::vector<Viol>& out) {
    const rx::Meth& m = r.meths[0];
    auto X = std::to_string(x);
    // (a) x is still listed as a base of some class
    if (rx::down(r.po, x) != (1 << x)) {
        rx::Registry ra = r;
        int w = 0;
        for (int i = 0; i < ra.nr; ++i)
            if (ra.recs[i].cls != x)
                ra.recs[w++] = ra.recs[i];
        ra.nr = w;
        hx::Built b;
        run::note("base list");
        hx::build(ra, b);
        COUNT("updates", 1);
        COUNT("omitted_in_base_list", 1);
        if (b.ok || !is_unknown_for(b.err, x))
            out.push_back(
                {"unknown_base_not_reported",
                 "omitted=" + X + " update said " +
                     (b.ok ? std::string("ok") : err_text(b.err))});
    }
    // (a') x is listed only in a later record of a class that an earlier
    // record registered with its other bases
    for (int dcls = 0; dcls < r.po.n; ++dcls) {
        if (!rx::lt(r.po, dcls, x) || (r.po.up[dcls] & ~(1 << x)) == 0)
            continue;
        rx::Registry rb;
        rb.po = r.po;
        rb.nm = r.nm;
        rb.meths[0] = r.meths[0];
        for (int i = 0; i < r.nr; ++i) {
            const rx::Rec& rec = r.recs[i];
            if (rec.cls == x)
                continue;
            if (rec.cls != dcls) {
                rb.recs[rb.nr++] = rec;
                continue;
            }
            rx::Rec first = rec, second = rec;
            first.nb = second.nb = 0;
            for (int b = 0; b < rec.nb; ++b)
                if (rec.bases[b] == x)
                    second.bases[second.nb++] = rec.bases[b];
                else
                    first.bases[first.nb++] = rec.bases[b];
            rb.recs[rb.nr++] = first;
            rb.recs[rb.nr++] = second;
        }
        if (rb.nr > rx::MAXR - 1)
            continue;
        hx::Built b;
        run::note("base list of a later record");
        hx::build(rb, b);
        COUNT("updates", 1);
        COUNT("omitted_in_base_list", 1);
        if (b.ok || !is_unknown_for(b.err, x))
            out.push_back(
                {"unknown_base_in_later_record_not_reported",
                 "omitted=" + X + " registry=" + rx::to_text(rb) + " update said " +
                     (b.ok ? std::string("ok") : err_text(b.err))});
    }
    rx::Registry rs = r;
    strip_class(rs, x);
    bool in_vp = false, in_def = false;
    for (int k = 0; k < m.arity; ++k) {
        if (m.vp[k] == x)
            in_vp = true;
        for (int d = 0; d < m.nd; ++d)
            if (m.def[d][k] == x)
                in_def = true;
    }
    if (in_vp || in_def) {
        // (b) / (c): method or definition parameter
        hx::Built b;
        run::note("method/definition parameter");
        hx::build(rs, b);
        COUNT("updates", 1);
        if (in_vp)
            COUNT("omitted_in_method", 1);
        else
            COUNT("omitted_in_definition", 1);
        if (b.ok || !is_unknown_for(b.err, x))
            out.push_back(
                {in_vp ? "unknown_method_param_not_reported"
                       : "unknown_definition_param_not_reported",
                 "omitted=" + X + " update said " +
                     (b.ok ? std::string("ok") : err_text(b.err))});
        return;
    }
    // (d): only the dynamic class of an argument. The class was registered at
    // an earlier update and has been withdrawn since (a library unloaded):
    // whatever the earlier update left behind must not make it look known
    {
        hx::Built before;
        run::note("update with the class still registered");
        forget_hash_state<hx::P>(0); // as in a fresh process
        hx::build(r, before);
        COUNT("updates", 1);
    }
    hx::Built b;
    hx::build(rs, b);
    COUNT("updates", 1);
    if (!b.ok) {
        out.push_back({"update_failed", "update reported " + err_text(b.err)});
        return;
    }
    run::note("dynamic class of an argument");
    rx::for_each_tuple(r.po, m, [&](const int8_t* a) {
        bool has = false;
        for (int k = 0; k < m.arity; ++k)
            if (a[k] == x)
                has = true;
        hx::set_dyn(a, m.arity);
        hx::Obs ob = hx::observe_call(m, a, false);
        COUNT("calls", 1);
        auto where = [&] {
            return "omitted=" + X + " shape=" +
                std::string(hx::SHAPES[m.shape]) + " args=(" +
                tuple_text(a, m.arity) + ") ran=" + std::to_string(ob.outcome) +
                " error=" + err_text(ob.other);
        };
        if (has) {
            COUNT("unknown_dynamic_calls", 1);
            if (ob.body_ran || !ob.threw || !is_unknown_for(ob.other, x))
                out.push_back({"unknown_argument_not_reported", where()});
        } else {
            int exp = rx::expected_call(r.po, m, a);
            if (ob.outcome != exp)
                out.push_back({"wrong_definition", where()});
        }
    });
    // exact-type virtual_ptr route
    if (rx::le(r.po, x, m.vp[0])) {
        run::note("virtual_ptr from exact type");
        rx::Registry rv = rs;
        rv.meths[0] = rx::Meth();
        rv.meths[0].shape = 59;
        rv.meths[0].arity = 1;
        rv.meths[0].vp[0] = m.vp[0];
        rv.meths[0].nd = 1;
        rv.meths[0].def[0][0] = m.vp[0];
        hx::Built bv;
        hx::build(rv, bv);
        COUNT("updates", 1);
        static std::uintptr_t stale_vtbl[16];
        for (int stale = 0; bv.ok && stale <= 1; ++stale) {
            hx::g_err.reset();
            int before = hx::g_bodies_run;
            bool threw = false;
            try {
                // stale == 0: what a never-registered class has;
                // stale == 1: what a class whose registration was withdrawn
                // before the last update has (update never resets it)
                *hx::g_static_vptr[x] = stale ? stale_vtbl : nullptr;
                g_exact[x](hx::g_objs[x], 0);
            } catch (hx::Thrown&) {
                threw = true;
            }
            *hx::g_static_vptr[x] = nullptr;
            COUNT("calls", 1);
            COUNT("unknown_dynamic_calls", 1);
            if (!threw || hx::g_bodies_run != before ||
                !is_unknown_for(hx::g_err, x))
                out.push_back(
                    {stale ? "withdrawn_exact_virtual_ptr_not_reported"
                           : "unknown_exact_virtual_ptr_not_reported",
                     "omitted=" + X + " threw=" + std::to_string(threw) +
                         " error=" + err_text(hx::g_err)});
        }
    }
}

struct F2 : F0 {}; // never registered
struct F3 final : F0 {}; // never registered, and final

inline void check_final(std::vector<Viol>& out) {
    using namespace yorel::yomm2;
    // F0, F1 registered, F2 not; final(object of another dynamic type viewed
    // as F0) must be a method_table_error carrying the dynamic type, for every
    // form of the argument: F0&, const F0&, and shared_ptr<F0> as non-const
    // lvalue, const lvalue and rvalue
    hx::unregister_all();
    static class_declaration<F0, hx::P> c0;
    static class_declaration<F1, F0, hx::P> c1;
    hx::Built b;
    hx::do_update(b);
    using VP = virtual_ptr<F0, hx::P>;
    using VSP = virtual_ptr<std::shared_ptr<F0>, hx::P>;
    auto expect_error = [&](const char* form, const std::type_info& dyn, auto&& make) {
        hx::g_err.reset();
        bool threw = false;
        int before = hx::g_bodies_run;
        try {
            make();
        } catch (hx::Thrown&) {
            threw = true;
        }
        bool ok = false;
        if (threw && hx::g_err)
            if (auto e = std::get_if<method_table_error>(&*hx::g_err))
                ok = e->type == (type_id)&dyn;
        if (!ok || hx::g_bodies_run != before)
            out.push_back(
                {"final_wrong_type_not_reported",
                 std::string("final(") + form + ") threw=" + std::to_string(threw) +
                     " error=" + err_text(hx::g_err)});
    };
    auto expect_accepted = [&](const char* form, auto&& make) {
        bool threw = false;
        try {
            make();
        } catch (hx::Thrown&) {
            threw = true;
        }
        if (threw)
            out.push_back({"final_right_type_rejected", std::string("final(") + form + ") threw"});
    };
    F1 f1;
    F2 f2;
    F0 f0;
    {
        F0& r1 = f1;
        const F0& cr1 = f1;
        F0& r2 = f2;
        expect_error("F1 as F0&", typeid(F1), [&] { (void)VP::final(r1); });
        expect_error("F1 as const F0&", typeid(F1), [&] { (void)virtual_ptr<const F0, hx::P>::final(cr1); });
        expect_error("unregistered F2 as F0&", typeid(F2), [&] { (void)VP::final(r2); });
        const F0& cr0 = f0;
        expect_accepted("F0 as F0&", [&] { (void)VP::final(f0); });
        expect_accepted("F0 as const F0&", [&] { (void)virtual_ptr<const F0, hx::P>::final(cr0); });
    }
    {
        std::shared_ptr<F0> s1 = std::make_shared<F1>();
        const std::shared_ptr<F0> cs1 = s1;
        std::shared_ptr<F0> s2 = std::make_shared<F2>();
        std::shared_ptr<F0> s0 = std::make_shared<F0>();
        const std::shared_ptr<F0> cs0 = s0;
        expect_error("shared_ptr<F0>& owning F1", typeid(F1), [&] { (void)VSP::final(s1); });
        expect_error("const shared_ptr<F0>& owning F1", typeid(F1), [&] { (void)VSP::final(cs1); });
        expect_error("shared_ptr<F0>&& owning F1", typeid(F1),
                     [&] { (void)VSP::final(std::shared_ptr<F0>(s1)); });
        expect_error("shared_ptr<F0>& owning unregistered F2", typeid(F2), [&] { (void)VSP::final(s2); });
        expect_accepted("shared_ptr<F0>& owning F0", [&] { (void)VSP::final(s0); });
        expect_accepted("const shared_ptr<F0>& owning F0", [&] { (void)VSP::final(cs0); });
        expect_accepted("shared_ptr<F0>&& owning F0", [&] { (void)VSP::final(std::shared_ptr<F0>(s0)); });
    }
    // virtual_ptr construction from an object of an unregistered class that
    // is declared final: exact type, through a base reference, shared
    {
        auto expect_unknown = [&](const char* form, auto&& make) {
            hx::g_err.reset();
            bool threw = false;
            int before = hx::g_bodies_run;
            try {
                make();
            } catch (hx::Thrown&) {
                threw = true;
            }
            bool ok = false;
            if (threw && hx::g_err)
                if (auto e = std::get_if<unknown_class_error>(&*hx::g_err))
                    ok = e->type == (type_id)&typeid(F3);
            if (!ok || hx::g_bodies_run != before)
                out.push_back(
                    {"unknown_final_class_not_reported",
                     std::string("virtual_ptr(") + form + ") threw=" + std::to_string(threw) +
                         " error=" + err_text(hx::g_err)});
        };
        F3 f3;
        F0& f3_as_f0 = f3;
        expect_unknown("unregistered final F3, exact type", [&] { (void)virtual_ptr<F3, hx::P>(f3); });
        expect_unknown("unregistered final F3 converted to virtual_ptr<F0>",
                       [&] { (void)virtual_ptr<F0, hx::P>(f3); });
        expect_unknown("unregistered final F3 through F0&",
                       [&] { (void)virtual_ptr<F0, hx::P>(f3_as_f0); });
        expect_unknown("shared_ptr to unregistered final F3", [&] {
            (void)virtual_ptr<std::shared_ptr<F3>, hx::P>(std::make_shared<F3>());
        });
        std::shared_ptr<F0> sp3 = std::make_shared<F3>();
        expect_unknown("shared_ptr<F0> to unregistered final F3",
                       [&] { (void)virtual_ptr<std::shared_ptr<F0>, hx::P>(sp3); });
    }
    hx::P::classes.clear();
}

inline int unknown_main() {
    auto& o = run::g_opts;
    run::declare_counters(
        {"registries", "nontrivial", "updates", "calls", "omitted_in_base_list",
         "omitted_in_method", "omitted_in_definition", "unknown_dynamic_calls",
         "mi_registries", "final_checks"});
    if constexpr (!hx::has_checks) {
        fprintf(stderr, "driver 'unknown' needs a checked policy\n");
        return 2;
    }
    if (!o.replay.empty()) {
        run::g_sh = new run::Shared();
        run::g_out = stdout;
        rx::Registry r = rx::from_text(o.replay.c_str());
        std::vector<Viol> v;
        int x = geti("omit", -1);
        if (x < 0)
            check_final(v);
        else
            check_unknown(r, x, v);
        for (auto& vv : v)
            printf("VIOL\t%s\t%s\n", vv.kind.c_str(), vv.detail.c_str());
        return v.empty() ? 0 : 1;
    }
    auto spaces = parse_spaces(o.space);
    return run::run_sharded([&] {
        long samples = 0;
        if (o.shard == 0) {
            rx::Registry none;
            if (run::g_gate.take(none)) {
                std::vector<Viol> v;
                check_final(v);
                COUNT("final_checks", 17);
                for (auto& x : v)
                    run::candidate(x.kind.c_str(), "P 0 | A 0 | R | M", x.detail);
            }
        } else {
            rx::Registry none;
            run::g_gate.take(none);
        }
        for (auto& sp : spaces)
            for_each_single_method_registry(sp, [&](const rx::Registry& r) {
                if (!run::g_gate.take(r))
                    return;
                COUNT("registries", 1);
                if (registry_nontrivial(r))
                    COUNT("nontrivial", 1);
                if (rx::has_mi(r.po))
                    COUNT("mi_registries", 1);
                for (int x = 0; x < r.po.n; ++x) {
                    std::vector<Viol> v;
                    check_unknown(r, x, v);
                    for (auto& vv : v)
                        run::candidate(
                            vv.kind.c_str(), rx::to_text(r),
                            "omit=" + std::to_string(x) + " " + vv.detail);
                }
                if (o.shard == 0 && samples < 3 && r.po.n >= 3 &&
                    r.meths[0].nd >= 1 && run::g_gate.idx % 7 == 0) {
                    ++samples;
                    run::sample(rx::to_text(r) + " (each class omitted in turn)");
                }
            });
    });
}

} // namespace drv
