// drivers_history.hpp - engine E2 `histx` (C07, history clause of C03):
// explicit-state BFS over registration / update histories on one policy.
// A state is the operation history reaching it; it is rebuilt by replaying the
// history in a forked child of a pristine zygote (this process never runs a
// library operation itself).
#pragma once
#include "drivers_gen.hpp"

#include <deque>
#include <set>

namespace drv {

// the pool: diamond lattice 0 <- 1, 0 <- 2, {1,2} <- 3; class 1 is registered
// by two records (two libraries registering the same class)
struct Pool {
    rx::Registry full;  // every record, method, definition
    int nrec, nmeth, ndef;
    int def_meth[8], def_idx[8]; // definition k = meths[def_meth].def[def_idx]
};

inline Pool make_pool() {
    Pool p;
    rx::Registry& r = p.full;
    r.po.n = 4;
    r.po.up[0] = 0;
    r.po.up[1] = 1;
    r.po.up[2] = 1;
    r.po.up[3] = 7;
    rx::present(r, rx::PRES_FULL);
    r.recs[4] = r.recs[1]; // second record of class 1
    r.nr = 5;
    r.nm = 2;
    rx::Meth& u = r.meths[0];
    u.shape = hx::shape_index("R");
    u.arity = 1;
    u.vp[0] = 0;
    u.nd = 2;
    u.def[0][0] = 1;
    u.def[1][0] = 2;
    rx::Meth& b = r.meths[1];
    b.shape = hx::shape_index("RR");
    b.arity = 2;
    b.vp[0] = 0;
    b.vp[1] = 0;
    b.nd = 2;
    b.def[0][0] = 0;
    b.def[0][1] = 0;
    b.def[1][0] = 1;
    b.def[1][1] = 2;
    p.nrec = 5;
    p.nmeth = 2;
    p.ndef = 4;
    int k = 0;
    for (int mi = 0; mi < 2; ++mi)
        for (int di = 0; di < r.meths[mi].nd; ++di) {
            p.def_meth[k] = mi;
            p.def_idx[k] = di;
            ++k;
        }
    return p;
}

// live registrations, in catalog order
struct Live {
    std::vector<int> recs, meths;
    std::vector<int> defs[2];
    bool dirty = true;      // registrations changed since the last update
    bool valid = false;     // last update succeeded and nothing changed since
    bool has(const std::vector<int>& v, int x) const {
        return std::find(v.begin(), v.end(), x) != v.end();
    }
    std::string key() const {
        std::string s;
        for (int x : recs)
            s += char('0' + x);
        s += "|";
        for (int x : meths)
            s += char('0' + x);
        for (int m = 0; m < 2; ++m) {
            s += "|";
            for (int x : defs[m])
                s += char('0' + x);
        }
        return s;
    }
};

// ops: 'a'..'e' records, 'm','n' methods, 'w'..'z' definitions, 'U' update
inline const char* HIST_OPS = "abcdemnwxyzU";

struct HistHarness {
    Pool pool = make_pool();
    Live live;

    bool enabled(char op) const {
        if (op == 'U')
            return true;
        if (op >= 'a' && op <= 'e')
            return true;
        if (op == 'm' || op == 'n') {
            int mi = op - 'm';
            if (live.has(live.meths, mi)) // remove: definitions first
                return live.defs[mi].empty();
            return true;
        }
        int k = op - 'w';
        int mi = pool.def_meth[k];
        if (live.has(live.defs[mi], pool.def_idx[k]))
            return true;
        return live.has(live.meths, mi); // add: the method must be there
    }

    void apply_registration(char op) {
        const rx::Registry& r = pool.full;
        auto toggle = [](std::vector<int>& v, int x) {
            auto it = std::find(v.begin(), v.end(), x);
            if (it != v.end()) {
                v.erase(it);
                return false;
            }
            v.push_back(x);
            return true;
        };
        live.dirty = true;
        live.valid = false;
        if (op >= 'a' && op <= 'e') {
            int i = op - 'a';
            hx::RecStore& s = hx::g_recs[i];
            if (toggle(live.recs, i)) {
                const rx::Rec& rec = r.recs[i];
                memset((void*)&s, 0, sizeof s);
                s.info.type = hx::reg_id(rec.cls, 0);
                s.info.static_vptr = hx::g_static_vptr[rec.cls];
                for (int b = 0; b < rec.nb; ++b)
                    s.bases[b] = hx::reg_id(rec.bases[b], 0);
                s.info.first_base = s.bases;
                s.info.last_base = s.bases + rec.nb;
                hx::P::classes.push_back(s.info);
            } else
                hx::P::classes.remove(s.info);
        } else if (op == 'm' || op == 'n') {
            int mi = op - 'm';
            const rx::Meth& m = r.meths[mi];
            hx::MethodOps& o = hx::g_ops[m.shape];
            if (toggle(live.meths, mi)) {
                yorel::yomm2::type_id* vp = hx::g_mvp[m.shape];
                for (int k = 0; k < m.arity; ++k)
                    vp[k] = hx::reg_id(m.vp[k], 0);
                vp[m.arity] = 0;
                o.info->vp_begin = vp;
                o.info->vp_end = vp + m.arity;
                hx::P::methods.push_back(*o.info);
            } else
                hx::P::methods.remove(*o.info);
        } else {
            int k = op - 'w';
            int mi = pool.def_meth[k], di = pool.def_idx[k];
            const rx::Meth& m = r.meths[mi];
            hx::MethodOps& o = hx::g_ops[m.shape];
            hx::DefStore& s = hx::g_defs[m.shape * rx::MAXD + di];
            if (toggle(live.defs[mi], di)) {
                memset((void*)&s, 0, sizeof s);
                s.info.method = o.info;
                s.info.type = o.info->method_type;
                s.info.next = &s.next;
                for (int q = 0; q < m.arity; ++q)
                    s.vp[q] = hx::reg_id(m.def[di][q], 0);
                s.vp[m.arity] = 0;
                s.info.vp_begin = s.vp;
                s.info.vp_end = s.vp + m.arity;
                s.info.pf = o.pf[di];
                s.next = (void*)0x1;
                o.info->specs.push_back(s.info);
            } else
                o.info->specs.remove(s.info);
        }
    }

    // the registry made of the live registrations, in live order
    rx::Registry live_registry(std::vector<std::vector<int>>& orig, std::vector<int>& morig) const {
        rx::Registry r;
        r.po = pool.full.po;
        for (int i : live.recs)
            r.recs[r.nr++] = pool.full.recs[i];
        for (int mi : live.meths) {
            rx::Meth m = pool.full.meths[mi];
            m.nd = 0;
            std::vector<int> o;
            for (int di : live.defs[mi]) {
                memcpy(m.def[m.nd++], pool.full.meths[mi].def[di], rx::MAXA);
                o.push_back(di);
            }
            r.meths[r.nm++] = m;
            orig.push_back(o);
            morig.push_back(mi);
        }
        return r;
    }

    // is every class mentioned by a live registration itself registered?
    int missing_class() const {
        unsigned reg = 0;
        for (int i : live.recs)
            reg |= 1u << pool.full.recs[i].cls;
        for (int i : live.recs)
            for (int b = 0; b < pool.full.recs[i].nb; ++b)
                if (!(reg >> pool.full.recs[i].bases[b] & 1))
                    return pool.full.recs[i].bases[b];
        for (int mi : live.meths) {
            const rx::Meth& m = pool.full.meths[mi];
            for (int k = 0; k < m.arity; ++k)
                if (!(reg >> m.vp[k] & 1))
                    return m.vp[k];
            for (int di : live.defs[mi])
                for (int k = 0; k < m.arity; ++k)
                    if (!(reg >> m.def[di][k] & 1))
                        return m.def[di][k];
        }
        return -1;
    }
    unsigned registered_classes() const {
        unsigned reg = 0;
        for (int i : live.recs)
            reg |= 1u << pool.full.recs[i].cls;
        return reg;
    }

    // observable behaviour after a successful update: signature string (in
    // pool numbering, so that it can be compared across processes), violations
    // against the model appended to `out`
    std::string observe(std::vector<Viol>& out, const std::string& hist) {
        std::vector<std::vector<int>> orig;
        std::vector<int> morig;
        rx::Registry r = live_registry(orig, morig);
        unsigned reg = registered_classes();
        std::string sig;
        // every legal call, checked once in reverse order first: the first call
        // after an update is then on the same method and classes as the last
        // call before it (anything remembered across calls would be stale)
        auto check_call = [&](int li, const int8_t* a, bool record) {
            const rx::Meth& m = r.meths[li];
            int e0 = rx::expected_call(r.po, m, a);
            int exp = e0 >= 0 ? orig[li][e0] : e0;
            hx::set_dyn(a, m.arity);
            // observations in POOL numbering: bodies return their pool
            // index, pointers are classified against the pool's functions
            rx::Meth pm = pool.full.meths[morig[li]];
            hx::Obs ob = hx::observe_call(pm, a);
            COUNT("calls", 2);
            if (record)
                sig += std::to_string(ob.outcome) + ",";
            if (ob.outcome != exp || ob.resolved != exp)
                out.push_back(
                    {"wrong_outcome_after_history",
                     "history=" + hist + " method=" + std::to_string(morig[li]) +
                         " args=(" + tuple_text(a, m.arity) + ") expected=" +
                         std::to_string(exp) + " ran=" +
                         std::to_string(ob.outcome) + " resolved=" +
                         std::to_string(ob.resolved) + (record ? "" : " (reverse pass)")});
        };
        std::vector<std::vector<std::array<int8_t, rx::MAXA>>> tuples(r.nm);
        for (int li = 0; li < r.nm; ++li) {
            const rx::Meth& m = r.meths[li];
            rx::for_each_tuple(r.po, m, [&](const int8_t* a) {
                for (int k = 0; k < m.arity; ++k)
                    if (!(reg >> a[k] & 1))
                        return; // only registered classes can be passed
                std::array<int8_t, rx::MAXA> t{};
                memcpy(t.data(), a, m.arity);
                tuples[li].push_back(t);
            });
        }
        for (int li = r.nm - 1; li >= 0; --li)
            for (size_t i = tuples[li].size(); i-- > 0;)
                check_call(li, tuples[li][i].data(), false);
        for (int li = 0; li < r.nm; ++li) {
            const rx::Meth& m = r.meths[li];
            auto name = [&](int o) { return o >= 0 ? orig[li][o] : o; };
            sig += "M" + std::to_string(morig[li]) + ":";
            for (auto& t : tuples[li])
                check_call(li, t.data(), true);
            sig += "N:";
            for (int di = 0; di < m.nd; ++di) {
                int exp = name(rx::expected_next(r.po, m, di));
                int got = hx::observed_next(pool.full.meths[morig[li]], orig[li][di]);
                COUNT("nexts", 1);
                sig += std::to_string(orig[li][di]) + ">" + std::to_string(got) + ",";
                if (exp != got)
                    out.push_back(
                        {"wrong_next_after_history",
                         "history=" + hist + " method=" + std::to_string(morig[li]) +
                             " def=" + std::to_string(orig[li][di]) + " expected=" +
                             std::to_string(exp) + " got=" + std::to_string(got)});
            }
        }
        return sig;
    }

    // installed implementation state: what a call reads, relative to bases
    std::string installed() const {
        std::string s;
        auto& data = hx::P::dispatch_data;
        s += "D" + std::to_string(data.size()) + ":";
        for (auto w : data) {
            if (w >= (std::uintptr_t)data.data() &&
                w < (std::uintptr_t)(data.data() + data.size()))
                s += "+" + std::to_string((w - (std::uintptr_t)data.data()) / sizeof(std::uintptr_t));
            else
                s += "#" + std::to_string(w % 1000003);
            s += ",";
        }
        for (int mi : live.meths) {
            const rx::Meth& m = pool.full.meths[mi];
            const std::size_t* ss = hx::g_ops[m.shape].info->slots_strides_ptr;
            s += "S";
            for (int i = 0; i < 2 * m.arity - 1; ++i)
                s += std::to_string(ss[i]) + ",";
        }
        s += leftovers();
        return s;
    }
    // state that persists between updates
    template<class Pol>
    static std::string hash_leftovers() {
        if constexpr (Pol::template has_facet<yorel::yomm2::policy::type_hash>)
            return std::to_string(Pol::hash_mult % 1000003) + "," +
                std::to_string(Pol::hash_shift) + "," +
                std::to_string(Pol::hash_length) + "," +
                std::to_string(Pol::hash_min) + "," + std::to_string(Pol::hash_max) +
                ",";
        else
            return "";
    }
    std::string leftovers() const {
        std::string s = "L";
        s += hash_leftovers<hx::P>();
        s += "v" + std::to_string(vptrs_size()) + ",";
        for (int c = 0; c < 4; ++c)
            s += *hx::g_static_vptr[c] ? "1" : "0";
        return s;
    }
    static std::size_t vptrs_size() {
        return hx::P::vptrs.size();
    }

    struct UpdateResult {
        bool ok = false;
        std::string sig;
    };

    UpdateResult do_update_and_check(std::vector<Viol>& out, const std::string& hist) {
        UpdateResult ur;
        hx::Built b;
        hx::do_update(b);
        COUNT("updates", 1);
        int missing = missing_class();
        live.dirty = false;
        if (missing >= 0) {
            // the model predicts an unknown_class_error
            bool good = !b.ok && b.err &&
                std::get_if<yorel::yomm2::unknown_class_error>(&*b.err);
            if (!good)
                out.push_back(
                    {"inconsistent_registry_not_reported",
                     "history=" + hist + " a class is missing but update said " +
                         (b.ok ? std::string("ok") : err_text(b.err))});
            live.valid = false;
            ur.sig = "ERR";
            return ur;
        }
        if (!b.ok) {
            out.push_back(
                {"update_failed_after_history",
                 "history=" + hist + " update reported " + err_text(b.err)});
            live.valid = false;
            ur.sig = "FAILED";
            return ur;
        }
        live.valid = true;
        ur.ok = true;
        ur.sig = observe(out, hist);
        // idempotence: update again with no change
        std::string before = installed();
        hx::Built b2;
        for (int mi : live.meths)
            for (int di : live.defs[mi])
                hx::g_defs[pool.full.meths[mi].shape * rx::MAXD + di].next = (void*)0x1;
        hx::do_update(b2);
        COUNT("updates", 1);
        if (!b2.ok)
            out.push_back(
                {"second_update_failed",
                 "history=" + hist + " second update reported " + err_text(b2.err)});
        else {
            std::vector<Viol> v2;
            std::string sig2 = observe(v2, hist + "U");
            std::string after = installed();
            if (sig2 != ur.sig || !v2.empty())
                out.push_back(
                    {"update_not_idempotent",
                     "history=" + hist + " outcomes changed: " + ur.sig + " -> " + sig2});
            else if (before != after)
                out.push_back(
                    {"update_not_idempotent",
                     "history=" + hist + " installed state changed: " + before + " -> " + after});
        }
        return ur;
    }

    std::string canonical() const {
        return live.key() + (live.dirty ? "~" : "=") + (live.valid ? "V" : "-") + "/" +
            leftovers();
    }
};

// messages from exploring processes to the BFS master
struct HistMsg {
    char op;
    bool enabled;
    char canon[400];
    char livekey[64];
    char sig[600];
    int updated_ok;
    int nviol;
    char viol_kind[4][64];
    char viol_detail[4][700];
};

inline void fill_msg(HistMsg& msg, const std::vector<Viol>& v) {
    msg.nviol = (int)std::min<size_t>(v.size(), 4);
    for (int i = 0; i < msg.nviol; ++i) {
        strncpy(msg.viol_kind[i], v[i].kind.c_str(), 63);
        strncpy(msg.viol_detail[i], v[i].detail.c_str(), 699);
    }
}

// fresh process: register the live records in the same order, update once
inline std::string fresh_signature(const std::string& livekey, std::vector<Viol>& out) {
    // livekey: recs|meths|defs0|defs1
    HistHarness h;
    std::vector<std::string> parts = split(livekey + "|", '|');
    std::string ops;
    auto part = [&](size_t i) { return i < parts.size() ? parts[i] : std::string(); };
    // split() drops empty fields: parse by hand instead
    std::vector<std::string> f(4);
    {
        size_t k = 0;
        for (char c : livekey) {
            if (c == '|')
                ++k;
            else if (k < 4)
                f[k] += c;
        }
    }
    (void)part;
    for (char c : f[0])
        h.apply_registration(char('a' + (c - '0')));
    for (char c : f[1])
        h.apply_registration(char('m' + (c - '0')));
    for (int mi = 0; mi < 2; ++mi)
        for (char c : f[2 + mi]) {
            for (int k = 0; k < h.pool.ndef; ++k)
                if (h.pool.def_meth[k] == mi && h.pool.def_idx[k] == c - '0')
                    h.apply_registration(char('w' + k));
        }
    auto ur = h.do_update_and_check(out, "fresh:" + livekey);
    return ur.sig;
}

inline int history_main() {
    auto& o = run::g_opts;
    int depth = geti("depth", 5);
    std::string start = get("start", ""); // history applied before exploring
    run::declare_counters(
        {"states", "transitions", "updates", "calls", "nexts", "histories",
         "fresh_processes", "update_transitions", "error_updates", "nontrivial"});
    run::g_sh = (run::Shared*)mmap(
        nullptr, sizeof(run::Shared), PROT_READ | PROT_WRITE,
        MAP_SHARED | MAP_ANONYMOUS, -1, 0);
    run::g_out = o.out.empty() ? stdout : fopen(o.out.c_str(), "w");
    run::g_t0 = run::now();
    auto* msgs = (HistMsg*)mmap(
        nullptr, sizeof(HistMsg) * 16, PROT_READ | PROT_WRITE,
        MAP_SHARED | MAP_ANONYMOUS, -1, 0);

    // replay mode: run one history, checking after every update
    if (!o.replay.empty()) {
        std::string hist = o.replay;
        if (hist.rfind("H ", 0) == 0)
            hist = hist.substr(2);
        HistHarness h;
        std::vector<Viol> v;
        std::string sofar;
        for (char op : hist) {
            sofar += op;
            if (!h.enabled(op)) {
                printf("op %c not enabled\n", op);
                return 2;
            }
            if (op == 'U')
                h.do_update_and_check(v, sofar);
            else
                h.apply_registration(op);
        }
        printf("STATE\t%s\n", h.canonical().c_str());
        for (auto& x : v)
            printf("VIOL\t%s\t%s\n", x.kind.c_str(), x.detail.c_str());
        return v.empty() ? 0 : 1;
    }

    std::set<std::string> seen;
    std::map<std::string, std::string> fresh; // live key -> signature
    std::deque<std::string> frontier;
    frontier.push_back(start);
    long samples = 0;
    bool deadline_hit = false;
    const int nops = (int)strlen(HIST_OPS);

    auto report = [&](const char* kind, const std::string& hist, const std::string& detail) {
        run::candidate(kind, "H " + hist, detail);
    };

    // the master only forks; sharding: a shard owns the histories whose
    // first two operations (after `start`) hash to it
    auto owned = [&](const std::string& hist) {
        std::string rel = hist.substr(start.size());
        if (rel.size() < 2)
            return true; // shallow levels are explored by every shard
        int a = (int)(strchr(HIST_OPS, rel[0]) - HIST_OPS);
        int b = (int)(strchr(HIST_OPS, rel[1]) - HIST_OPS);
        return (a * nops + b) % o.nshards == o.shard;
    };

    while (!frontier.empty()) {
        std::string hist = frontier.front();
        frontier.pop_front();
        if ((int)(hist.size() - start.size()) >= depth)
            continue;
        if (o.deadline_s > 0 && run::now() - run::g_t0 > o.deadline_s) {
            deadline_hit = true;
            break;
        }
        // child: replay the history, then fork one grandchild per operation
        fflush(run::g_out);
        pid_t pid = fork();
        if (pid == 0) {
            HistHarness h;
            std::vector<Viol> dummy;
            std::string sofar;
            for (char op : hist) {
                sofar += op;
                if (op == 'U')
                    h.do_update_and_check(dummy, sofar);
                else
                    h.apply_registration(op);
            }
            for (int k = 0; k < nops; ++k) {
                char op = HIST_OPS[k];
                HistMsg& msg = msgs[k];
                memset(&msg, 0, sizeof msg);
                msg.op = op;
                msg.enabled = h.enabled(op);
                if (!msg.enabled)
                    continue;
                pid_t g = fork();
                if (g == 0) {
                    std::vector<Viol> v;
                    std::string sig;
                    msg.updated_ok = -1;
                    if (op == 'U') {
                        auto ur = h.do_update_and_check(v, hist + op);
                        sig = ur.sig;
                        msg.updated_ok = ur.ok;
                    } else
                        h.apply_registration(op);
                    strncpy(msg.canon, h.canonical().c_str(), sizeof msg.canon - 1);
                    strncpy(msg.livekey, h.live.key().c_str(), sizeof msg.livekey - 1);
                    strncpy(msg.sig, sig.c_str(), sizeof msg.sig - 1);
                    fill_msg(msg, v);
                    _exit(0);
                }
                int st = 0;
                waitpid(g, &st, 0);
                if (!(WIFEXITED(st) && WEXITSTATUS(st) == 0)) {
                    msg.nviol = 1;
                    strcpy(msg.viol_kind[0], "crash");
                    snprintf(
                        msg.viol_detail[0], 699, "history=%s%c process died (%s %d)",
                        hist.c_str(), op, WIFSIGNALED(st) ? "signal" : "exit",
                        WIFSIGNALED(st) ? WTERMSIG(st) : WEXITSTATUS(st));
                    msg.canon[0] = 0;
                }
            }
            _exit(0);
        }
        int st = 0;
        waitpid(pid, &st, 0);
        if (!(WIFEXITED(st) && WEXITSTATUS(st) == 0)) {
            // replaying an already explored history must not fail
            fprintf(stderr, "history %s failed to replay\n", hist.c_str());
            return 2;
        }
        for (int k = 0; k < nops; ++k) {
            HistMsg& msg = msgs[k];
            if (!msg.enabled)
                continue;
            std::string next = hist + msg.op;
            if (!owned(next))
                continue;
            COUNT("transitions", 1);
            for (int i = 0; i < msg.nviol; ++i)
                report(msg.viol_kind[i], next, msg.viol_detail[i]);
            if (msg.op == 'U') {
                COUNT("update_transitions", 1);
                if (msg.updated_ok == 1) {
                    COUNT("nontrivial", 1);
                    // fresh equivalence (differential, no model involved)
                    std::string lk = msg.livekey;
                    auto it = fresh.find(lk);
                    if (it == fresh.end()) {
                        COUNT("fresh_processes", 1);
                        HistMsg& fm = msgs[15];
                        memset(&fm, 0, sizeof fm);
                        fflush(run::g_out);
                        pid_t f = fork();
                        if (f == 0) {
                            std::vector<Viol> v;
                            std::string s = fresh_signature(lk, v);
                            strncpy(fm.sig, s.c_str(), sizeof fm.sig - 1);
                            fill_msg(fm, v);
                            _exit(0);
                        }
                        int fst = 0;
                        waitpid(f, &fst, 0);
                        std::string fs = (WIFEXITED(fst) && WEXITSTATUS(fst) == 0)
                            ? std::string(fm.sig)
                            : std::string("CRASH");
                        for (int i = 0; i < fm.nviol; ++i)
                            report(fm.viol_kind[i], "fresh " + lk, fm.viol_detail[i]);
                        it = fresh.emplace(lk, fs).first;
                    }
                    if (it->second != msg.sig)
                        report(
                            "differs_from_fresh_process", next,
                            std::string("history=") + next + " after history: " + msg.sig +
                                " fresh process with the same registrations: " + it->second);
                } else if (msg.updated_ok == 0)
                    COUNT("error_updates", 1);
            }
            if (msg.canon[0] && !seen.count(msg.canon)) {
                seen.insert(msg.canon);
                COUNT("states", 1);
                frontier.push_back(next);
                if (o.shard == 0 && samples < 4 && next.size() >= 4 && msg.op == 'U' &&
                    msg.updated_ok == 1) {
                    ++samples;
                    run::sample("history " + next + " -> " + msg.canon);
                }
            }
        }
        COUNT("histories", 1);
    }
    fprintf(run::g_out, "SUMMARY\t{");
    for (int i = 0; i < run::NCOUNT; ++i)
        if (run::g_counter_names[i])
            fprintf(
                run::g_out, "%s\"%s\": %llu", i ? ", " : "", run::g_counter_names[i],
                run::g_sh->counters[i]);
    fprintf(
        run::g_out,
        ", \"registries\": %llu, \"candidates\": %ld, \"crashes\": 0, \"deadline_hit\": %d, "
        "\"wall_s\": %.3f}\n",
        run::g_sh->counters[run::counter("states")], run::g_sh->ncand_total,
        (int)deadline_hit, run::now() - run::g_t0);
    fflush(run::g_out);
    return 0;
}

} // namespace drv
