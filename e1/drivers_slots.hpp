// drivers_slots.hpp - C04: slot allocation and in-bounds table walks, over
// lattices x method sets x presentations.
#pragma once
#include "drivers_dispatch.hpp"

namespace drv {

using gc = yorel::yomm2::detail::generic_compiler;

inline const gc::class_* comp_class(const hx::Built& b, int label) {
    for (auto& c : b.comp->classes)
        if (hx::label_of(c) == label)
            return &c;
    return nullptr;
}

// bounds-checked re-implementation of the documented table walk over the
// installed words. Returns the function pointer word, or sets `bad`.
inline std::uintptr_t checked_walk(
    const hx::Built& b, const rx::Registry& r, int mi, const int8_t* a,
    std::string& bad) {
    const rx::Meth& m = r.meths[mi];
    auto& data = hx::P::dispatch_data;
    const std::uintptr_t* lo = data.data();
    const std::uintptr_t* hi = lo + data.size();
    auto in = [&](const std::uintptr_t* p) { return p >= lo && p < hi; };
    const std::size_t* ss = hx::g_ops[m.shape].info->slots_strides_ptr;
    auto& cm = b.comp->methods[mi];
    const std::uintptr_t* vt0 = *hx::g_static_vptr[a[0]];
    if (!vt0) {
        bad = "null v-table pointer for class " + std::to_string(a[0]);
        return 0;
    }
    const std::uintptr_t* cell = vt0 + ss[0];
    if (!in(cell)) {
        bad = "v-table cell of arg 0 outside dispatch data";
        return 0;
    }
    if (m.arity == 1)
        return *cell;
    const std::uintptr_t* dispatch = (const std::uintptr_t*)*cell;
    const std::uintptr_t* tlo = cm.gv_dispatch_table;
    const std::uintptr_t* thi = tlo + cm.dispatch_table.size();
    if (!(dispatch >= tlo && dispatch < thi)) {
        bad = "first cell does not point into the method's dispatch table";
        return 0;
    }
    for (int k = 1; k < m.arity; ++k) {
        const std::uintptr_t* vt = *hx::g_static_vptr[a[k]];
        if (!vt) {
            bad = "null v-table pointer for class " + std::to_string(a[k]);
            return 0;
        }
        cell = vt + ss[k];
        if (!in(cell)) {
            bad = "v-table cell of arg " + std::to_string(k) +
                " outside dispatch data";
            return 0;
        }
        std::size_t stride = ss[m.arity + k - 1];
        dispatch += *cell * stride;
        if (!(dispatch >= tlo && dispatch < thi)) {
            bad = "walk leaves the method's dispatch table at arg " +
                std::to_string(k);
            return 0;
        }
    }
    return *dispatch;
}

inline void check_slots(
    const rx::Registry& r, std::vector<Viol>& out, bool walk = true) {
    hx::Built b;
    run::note("update");
    hx::build(r, b);
    COUNT("updates", 1);
    COUNT("registrations", r.nr + r.nm);
    if (!b.ok) {
        out.push_back({"update_failed", "update reported " + err_text(b.err)});
        return;
    }
    auto& data = hx::P::dispatch_data;
    const std::uintptr_t* lo = data.data();
    const std::uintptr_t* hi = lo + data.size();

    run::note("slot checks");
    for (int c = 0; c < r.po.n; ++c) {
        if (r.abstract_mask >> c & 1)
            continue; // no object of an abstract class can be passed
        const gc::class_* cc = comp_class(b, c);
        if (!cc) {
            out.push_back({"class_missing", "class " + std::to_string(c)});
            continue;
        }
        std::vector<std::pair<std::size_t, std::pair<int, int>>> taken;
        for (int mi = 0; mi < r.nm; ++mi) {
            const rx::Meth& m = r.meths[mi];
            for (int i = 0; i < m.arity; ++i) {
                if (!rx::le(r.po, c, m.vp[i]))
                    continue;
                COUNT("slot_cells", 1);
                std::size_t slot = b.comp->methods[mi].slots[i];
                auto where = [&] {
                    return "class=" + std::to_string(c) + " method=" +
                        std::to_string(mi) + " param=" + std::to_string(i) +
                        " slot=" + std::to_string(slot) + " first_slot=" +
                        std::to_string(cc->first_slot) + " vtbl_size=" +
                        std::to_string(cc->vtbl.size());
                };
                if (slot < cc->first_slot ||
                    slot >= cc->first_slot + cc->vtbl.size()) {
                    out.push_back({"slot_outside_vtbl", where()});
                    continue;
                }
                for (auto& t : taken)
                    if (t.first == slot)
                        out.push_back(
                            {"slot_shared",
                             where() + " also used by method=" +
                                 std::to_string(t.second.first) + " param=" +
                                 std::to_string(t.second.second)});
                taken.push_back({slot, {mi, i}});
                auto& e = cc->vtbl[slot - cc->first_slot];
                if ((int)e.method_index != mi || (int)e.vp_index != i)
                    out.push_back(
                        {"cell_not_for_pair",
                         where() + " cell holds method=" +
                             std::to_string(e.method_index) + " param=" +
                             std::to_string(e.vp_index)});
                const std::uintptr_t* vp = *hx::g_static_vptr[c];
                if (!vp || vp + slot < lo || vp + slot >= hi)
                    out.push_back({"cell_outside_dispatch_data", where()});
            }
        }
    }
    if (!out.empty() || !walk)
        return;

    run::note("walks");
    for (int mi = 0; mi < r.nm; ++mi) {
        const rx::Meth& m = r.meths[mi];
        rx::for_each_tuple(r.po, m, [&](const int8_t* a) {
            for (int k = 0; k < m.arity; ++k)
                if (r.abstract_mask >> a[k] & 1)
                    return;
            COUNT("walks", 1);
            std::string bad;
            std::uintptr_t pf = checked_walk(b, r, mi, a, bad);
            auto where = [&] {
                return "m=" + std::to_string(mi) + " args=(" +
                    tuple_text(a, m.arity) + ")";
            };
            if (!bad.empty()) {
                out.push_back({"walk_out_of_bounds", where() + " " + bad});
                return;
            }
            // the real resolve must read the same cells (ASan build watches
            // it) and agree with the checked walk and with the oracle
            hx::set_dyn(a, m.arity);
            hx::Obj* objs[rx::MAXA];
            for (int k = 0; k < m.arity; ++k)
                objs[k] = hx::g_objs[a[k]];
            void* real = hx::g_ops[m.shape].resolve(objs);
            COUNT("calls", 1);
            if ((std::uintptr_t)real != pf)
                out.push_back({"walk_mismatch", where()});
            int exp = rx::expected_call(r.po, m, a);
            if (hx::classify_pf(m, real) != exp)
                out.push_back(
                    {"wrong_definition",
                     where() + " expected=" + std::to_string(exp) + " got=" +
                         std::to_string(hx::classify_pf(m, real))});
        });
    }
}

// method sets: "UUB" = two unary + one binary, "UBT" = unary+binary+ternary ...
// every assignment of parameter classes; each method gets `d` definitions:
// d=0 none, d=1 the most general one (its own parameter classes)
template<class F>
void for_each_method_set_registry(const SpaceSpec& sp, F&& f) {
    std::string set = sp.kv.count("set") ? sp.kv.at("set") : "UUB";
    int dmode = sp.d;
    std::vector<int> shapes;
    {
        int nthU = 0, nthB = 0;
        for (char c : set) {
            int s = -1;
            if (c == 'U')
                s = hx::shape_index("R", nthU++);
            else if (c == 'B')
                s = hx::shape_index("RR", nthB++);
            else if (c == 'T')
                s = hx::shape_index("RRR");
            else if (c == 'Q')
                s = hx::shape_index("RRRR");
            if (s < 0) {
                fprintf(stderr, "method set %s not available\n", set.c_str());
                exit(2);
            }
            shapes.push_back(s);
        }
    }
    for (int n = sp.nlo; n <= sp.nhi; ++n)
        rx::for_each_poset(n, [&](const rx::Poset& po) {
            rx::Registry r;
            r.po = po;
            r.nm = (int)shapes.size();
            std::function<void(int)> rec = [&](int mi) {
                if (mi == r.nm) {
                    // abs=all: every assignment of abstract / concrete flags
                    unsigned nmask = sp.kv.count("abs") && sp.kv.at("abs") == "all" ? 1u << n : 1u;
                    for (unsigned am = 0; am < nmask; ++am)
                        for (auto pres : sp.pres)
                            for (int rev : sp.rev) {
                                r.abstract_mask = (uint8_t)am;
                                rx::present(r, pres, rev);
                                f(r);
                            }
                    r.abstract_mask = 0;
                    return;
                }
                rx::Meth& m = r.meths[mi];
                m = rx::Meth();
                m.shape = shapes[mi];
                rx::for_each_vp(n, hx::shape_arity(shapes[mi]), m, [&] {
                    m.nd = 0;
                    if (dmode >= 2) {
                        // every multiset of <= d legal definitions for every method
                        auto legal = rx::legal_defs(po, hx::shape_arity(shapes[mi]), m.vp);
                        rx::for_each_defset(legal, dmode, m, [&] { rec(mi + 1); });
                        return;
                    }
                    if (dmode >= 1) {
                        m.nd = 1;
                        memcpy(m.def[0], m.vp, rx::MAXA);
                    }
                    rec(mi + 1);
                });
            };
            rec(0);
        });
}

inline int slots_main() {
    auto& o = run::g_opts;
    run::declare_counters(
        {"registries", "nontrivial", "updates", "registrations", "calls",
         "slot_cells", "walks", "mi_registries", "lattice_alloc"});
    if (!o.replay.empty()) {
        run::g_sh = new run::Shared();
        run::g_out = stdout;
        rx::Registry r = rx::from_text(o.replay.c_str());
        std::vector<Viol> v;
        check_slots(r, v);
        for (auto& x : v)
            printf("VIOL\t%s\t%s\n", x.kind.c_str(), x.detail.c_str());
        return v.empty() ? 0 : 1;
    }
    auto spaces = parse_spaces(o.space);
    return run::run_sharded([&] {
        long samples = 0;
        for (auto& sp : spaces)
            for_each_method_set_registry(sp, [&](const rx::Registry& r) {
                if (!run::g_gate.take(r))
                    return;
                COUNT("registries", 1);
                if (rx::has_mi(r.po)) {
                    COUNT("mi_registries", 1);
                    COUNT("nontrivial", 1);
                }
                std::vector<Viol> v;
                check_slots(r, v);
                for (auto& x : v)
                    run::candidate(x.kind.c_str(), rx::to_text(r), x.detail);
                if (o.shard == 0 && samples < 3 && rx::has_mi(r.po) &&
                    run::g_gate.idx % 11 == 0) {
                    ++samples;
                    run::sample(rx::to_text(r));
                }
            });
    });
}

} // namespace drv
