// bind.hpp - binds abstract registries (regx.hpp) to the REAL yomm2 code of
// /repo/include: real catalogs, real update<P>(), real method<>::resolve and
// operator().  One translation unit per policy tag (-DTAG_xxx).
#pragma once
#include "regx.hpp"

#include <yorel/yomm2/core.hpp>
#include <yorel/yomm2/generator.hpp>

#include <csetjmp>
#include <csignal>
#include <memory>
#include <optional>
#include <sstream>
#include <string_view>
#include <typeinfo>
#include <variant>

namespace hx {
using namespace yorel::yomm2;
namespace d = yorel::yomm2::detail;

// ---------------------------------------------------------------------------
// class pool: K<i> are unrelated as far as C++ goes; the library only sees
// the enumerated base lists.

struct Obj {
    virtual ~Obj() {
    }
    type_id dyn = 0; // custom RTTI flavours read this
};
template<int I>
struct K : Obj {};

constexpr int NK = rx::MAXC;

// ids per class and alias (custom flavours). std_rtti uses &typeid(K<i>).
inline type_id g_ids[NK + 1][2];
inline int g_dyn_alias[NK]; // which alias objects of class i carry

// ---------------------------------------------------------------------------
// RTTI facets for the custom flavours

#if defined(TAG_prn)
#define TAG_prj 1
#define HX_NOHASH 1
#endif
#if defined(TAG_dfh)
#define TAG_dfr 1
#define HX_KEEPHASH 1
#endif
#if defined(TAG_prc)
#define TAG_prj 1
#define HX_CHECKED 1
#endif
#if defined(TAG_inh) // integer ids, identity projection, WITH the type hash; ids start at 0
#define TAG_int 1
#define HX_INT_HASH 1
#endif
#if defined(TAG_int) || defined(TAG_prj) || defined(TAG_dfr)
#define HX_CUSTOM_RTTI 1
template<class T>
struct class_index {
    static constexpr int value = -1;
};
template<int I>
struct class_index<K<I>> {
    static constexpr int value = I;
};
template<>
struct class_index<Obj> {
    static constexpr int value = NK;
};

struct custom_rtti_base {
    template<typename T>
    static type_id static_type() {
        constexpr int i = class_index<std::remove_cv_t<T>>::value;
        if constexpr (i >= 0)
            return g_ids[i][0];
        else
            return 1000000; // not a class of the registry (methods, ...)
    }
    template<typename T>
    static type_id dynamic_type(const T& obj) {
        if constexpr (std::is_base_of_v<Obj, T>)
            return obj.dyn;
        else
            return 0;
    }
    template<class Stream>
    static void type_name(type_id type, Stream& stream) {
        stream << "id(" << type << ")";
    }
    template<typename D, typename B>
    static D dynamic_cast_ref(B&& obj) {
        return static_cast<D>(obj);
    }
};
#if defined(TAG_prj)
struct custom_rtti : policy::rtti, custom_rtti_base {
    using custom_rtti_base::type_name;
    static type_id type_index(type_id type) {
        return type / 2; // two ids per class
    }
};
#elif defined(TAG_dfr)
struct custom_rtti : policy::deferred_static_rtti, custom_rtti_base {
    using custom_rtti_base::type_name;
    static type_id type_index(type_id type) {
        return type;
    }
};
#else
struct custom_rtti : policy::rtti, custom_rtti_base {
    using custom_rtti_base::type_name;
    static type_id type_index(type_id type) {
        return type;
    }
};
#endif
#endif

// ---------------------------------------------------------------------------
// policies, each obtained from a stock policy the documented way

#if defined(TAG_rel)
struct P : policy::release::rebind<P> {};
#define HX_TAG "rel"
#elif defined(TAG_dbg)
struct P : policy::debug::rebind<P> {};
#define HX_TAG "dbg"
#elif defined(TAG_map)
struct P : policy::basic_policy<
               P, policy::std_rtti, policy::vptr_map<P>,
               policy::vectored_error<P>> {};
#define HX_TAG "map"
#elif defined(TAG_ind)
struct P : policy::basic_policy<
               P, policy::std_rtti, policy::fast_perfect_hash<P>,
               policy::vptr_vector<P>, policy::basic_indirect_vptr<P>,
               policy::backward_compatible_error_handler<P>> {};
#define HX_TAG "ind"
#elif defined(TAG_thr)
struct P : policy::release::rebind<P>::replace<
               policy::error_handler, policy::throw_error> {};
#define HX_TAG "thr"
#define HX_THROW_FACET 1
#elif defined(TAG_int) && defined(HX_INT_HASH)
struct P : policy::release::rebind<P>::replace<policy::rtti, custom_rtti> {};
#define HX_TAG "inh"
#elif defined(TAG_int)
struct P : policy::release::rebind<P>::replace<policy::rtti, custom_rtti>::
               remove<policy::type_hash> {};
#define HX_TAG "int"
#elif defined(TAG_prj) && defined(HX_NOHASH)
struct P : policy::release::rebind<P>::replace<policy::rtti, custom_rtti>::
               remove<policy::type_hash> {};
#define HX_TAG "prn"
#elif defined(TAG_prj) && defined(HX_CHECKED)
struct P : policy::debug::rebind<P>::replace<policy::rtti, custom_rtti> {};
#define HX_TAG "prc"
#elif defined(TAG_prj)
struct P : policy::release::rebind<P>::replace<policy::rtti, custom_rtti> {};
#define HX_TAG "prj"
#elif defined(TAG_dfr) && defined(HX_KEEPHASH)
struct P : policy::release::rebind<P>::replace<policy::rtti, custom_rtti> {};
#define HX_TAG "dfh"
#define HX_DEFERRED 1
#elif defined(TAG_dfr)
struct P : policy::release::rebind<P>::replace<policy::rtti, custom_rtti>::
               remove<policy::type_hash> {};
#define HX_TAG "dfr"
#define HX_DEFERRED 1
#else
#error "define a TAG_xxx"
#endif

constexpr bool is_deferred = std::is_base_of_v<policy::deferred_static_rtti, P>;
constexpr bool has_hash = P::template has_facet<policy::type_hash>;
constexpr bool has_checks = P::template has_facet<policy::runtime_checks>;
constexpr bool is_indirect = P::template has_facet<policy::indirect_vptr>;

// deferred flavour: an id is a function returning the id
template<int I, int A>
type_id id_fn() {
    return g_ids[I][A];
}
using id_fn_t = type_id (*)();
template<int... I>
constexpr std::array<std::array<id_fn_t, 2>, NK + 1>
make_id_fns(std::integer_sequence<int, I...>) {
    return {{{id_fn<I, 0>, id_fn<I, 1>}...}};
}
inline constexpr auto g_id_fns =
    make_id_fns(std::make_integer_sequence<int, NK + 1>());

inline type_id reg_id(int cls, int alias) { // what a registration stores
    if constexpr (is_deferred)
        return reinterpret_cast<type_id>(g_id_fns[cls][alias]);
    else
        return g_ids[cls][alias];
}

// objects
template<int... I>
std::array<Obj*, NK> make_objs(std::integer_sequence<int, I...>) {
    return {new K<I>()...};
}
inline std::array<Obj*, NK> g_objs =
    make_objs(std::make_integer_sequence<int, NK>());

template<int... I>
std::array<std::uintptr_t**, NK> make_svp(std::integer_sequence<int, I...>) {
    return {&P::template static_vptr<K<I>>...};
}
inline std::array<std::uintptr_t**, NK> g_static_vptr =
    make_svp(std::make_integer_sequence<int, NK>());

template<int... I>
std::array<type_id, NK> make_tids(std::integer_sequence<int, I...>) {
    return {reinterpret_cast<type_id>(&typeid(K<I>))...};
}

inline void init_ids() {
#ifdef HX_CUSTOM_RTTI
    // int/dfr: small integers 1..; prj: ids 2c+2, 2c+3 -> index c+1
    for (int c = 0; c <= NK; ++c) {
#if defined(TAG_prj)
        g_ids[c][0] = 2 * c + 2;
        g_ids[c][1] = 2 * c + 3;
#elif defined(HX_INT_HASH)
        g_ids[c][0] = g_ids[c][1] = c; // 0 is a legal id
#else
        g_ids[c][0] = g_ids[c][1] = c + 1;
#endif
    }
#else
    auto t = make_tids(std::make_integer_sequence<int, NK>());
    for (int c = 0; c < NK; ++c)
        g_ids[c][0] = g_ids[c][1] = t[c];
    g_ids[NK][0] = g_ids[NK][1] = reinterpret_cast<type_id>(&typeid(Obj));
#endif
    for (int c = 0; c < NK; ++c)
        g_objs[c]->dyn = g_ids[c][0];
}

inline int class_of_id(type_id id) {
    for (int c = 0; c <= NK; ++c)
        if (g_ids[c][0] == id || g_ids[c][1] == id)
            return c;
    return -1;
}

// ---------------------------------------------------------------------------
// what definitions and handlers record

struct CallLog {
    int meth = -1, def = -1;
    int nargs = 0;
    std::uintptr_t arg[6] = {};
};
inline CallLog g_log;
inline int g_bodies_run = 0;

struct Thrown {};
inline std::optional<error_type> g_err;
inline int g_err_count = 0;

// ---------------------------------------------------------------------------
// shapes and methods

constexpr std::string_view SHAPES[] = {
#define X(i, s) s,
#include "shapes.inc"
#undef X
};
constexpr int NSHAPES = sizeof(SHAPES) / sizeof(SHAPES[0]);

template<char C>
struct kind;
template<>
struct kind<'N'> {
    using type = int;
    static constexpr bool virt = false;
};
template<>
struct kind<'R'> {
    using type = virtual_<Obj&>;
    static constexpr bool virt = true;
};
template<>
struct kind<'P'> {
    using type = virtual_<Obj*>;
    static constexpr bool virt = true;
};
template<>
struct kind<'S'> {
    using type = virtual_<std::shared_ptr<Obj>>;
    static constexpr bool virt = true;
};
template<>
struct kind<'C'> {
    using type = virtual_<const std::shared_ptr<Obj>&>;
    static constexpr bool virt = true;
};
template<>
struct kind<'V'> {
    using type = virtual_ptr<Obj, P>;
    static constexpr bool virt = true;
};
template<>
struct kind<'W'> {
    using type = virtual_ptr<std::shared_ptr<Obj>, P>;
    static constexpr bool virt = true;
};
template<>
struct kind<'X'> {
    using type = const virtual_ptr<Obj, P>&;
    static constexpr bool virt = true;
};

template<int S>
struct shape_key {};

template<int S, class Seq>
struct method_of_;
template<int S, std::size_t... J>
struct method_of_<S, std::index_sequence<J...>> {
    using type =
        method<shape_key<S>, int(typename kind<SHAPES[S][J]>::type...), P>;
};
template<int S>
using method_of =
    typename method_of_<S, std::make_index_sequence<SHAPES[S].size()>>::type;

// shapes SO_BASE.. have (mutable) static offsets: C12's stand-in for a program
// compiled with the generated header
constexpr int SO_BASE = 83;
static_assert(SHAPES[SO_BASE] == "R" && SHAPES[SO_BASE + 3] == "RRRR");
static_assert(SHAPES[SO_BASE + 4] == "V" && SHAPES[SO_BASE + 7] == "RVRV");

constexpr int shape_arity(int s) {
    int k = 0;
    for (char c : SHAPES[s])
        k += c != 'N';
    return k;
}
constexpr int vrank(int s, int j) { // virtual rank of position j
    int k = 0;
    for (int i = 0; i < j; ++i)
        k += SHAPES[s][i] != 'N';
    return k;
}

} // namespace hx
namespace yorel {
namespace yomm2 {
namespace detail {
template<>
struct static_offsets<hx::method_of<hx::SO_BASE + 0>> {
    static inline std::size_t slots[1];
};
template<>
struct static_offsets<hx::method_of<hx::SO_BASE + 1>> {
    static inline std::size_t slots[2];
    static inline std::size_t strides[1];
};
template<>
struct static_offsets<hx::method_of<hx::SO_BASE + 2>> {
    static inline std::size_t slots[3];
    static inline std::size_t strides[2];
};
template<>
struct static_offsets<hx::method_of<hx::SO_BASE + 3>> {
    static inline std::size_t slots[4];
    static inline std::size_t strides[3];
};
// the same with virtual_ptr parameters (shapes V, RV, VRV, RVRV)
template<>
struct static_offsets<hx::method_of<hx::SO_BASE + 4>> {
    static inline std::size_t slots[1];
};
template<>
struct static_offsets<hx::method_of<hx::SO_BASE + 5>> {
    static inline std::size_t slots[2];
    static inline std::size_t strides[1];
};
template<>
struct static_offsets<hx::method_of<hx::SO_BASE + 6>> {
    static inline std::size_t slots[3];
    static inline std::size_t strides[2];
};
template<>
struct static_offsets<hx::method_of<hx::SO_BASE + 7>> {
    static inline std::size_t slots[4];
    static inline std::size_t strides[3];
};
} // namespace detail
} // namespace yomm2
} // namespace yorel
namespace hx {

// address identifying the object an argument refers to
inline std::uintptr_t ident(int v) {
    return (std::uintptr_t)v;
}
inline std::uintptr_t ident(Obj& o) {
    return (std::uintptr_t)&o;
}
inline std::uintptr_t ident(Obj* o) {
    return (std::uintptr_t)o;
}
inline std::uintptr_t ident(const std::shared_ptr<Obj>& o) {
    return (std::uintptr_t)o.get();
}
template<class C>
std::uintptr_t ident(const virtual_ptr<C, P>& o) {
    if constexpr (std::is_same_v<C, Obj>)
        return (std::uintptr_t)o.get();
    else
        return (std::uintptr_t)o.get().get();
}

// definition bodies: plain functions with the method's exact pointer type
template<int S, int I, class Sig>
struct body;
template<int S, int I, class... A>
struct body<S, I, int(A...)> {
    static int fn(A... a) {
        g_log.meth = S;
        g_log.def = I;
        g_log.nargs = sizeof...(A);
        int k = 0;
        ((g_log.arg[k++] = ident(a)), ...);
        ++g_bodies_run;
        return I;
    }
};

// argument construction per kind
template<char C>
decltype(auto) make_arg(Obj* o, int j) {
    if constexpr (C == 'N')
        return 100 + j;
    else if constexpr (C == 'R')
        return (*o);
    else if constexpr (C == 'P')
        return o;
    else if constexpr (C == 'S' || C == 'C')
        return std::shared_ptr<Obj>(std::shared_ptr<void>(), o);
    else if constexpr (C == 'V' || C == 'X')
        return virtual_ptr<Obj, P>(*o);
    else if constexpr (C == 'W')
        return virtual_ptr<std::shared_ptr<Obj>, P>(
            std::shared_ptr<Obj>(std::shared_ptr<void>(), o));
}

struct MethodOps {
    int shape;
    std::string_view str;
    int arity;
    d::method_info* info;
    void* pf[rx::MAXD];
    // objs: one per *virtual* position
    void* (*resolve)(Obj* const* objs);
    int (*call)(Obj* const* objs);
    bool (*has_vptr_kind)();
};

template<int S, class Seq, class DSeq>
struct ops_;
template<int S, std::size_t... J, std::size_t... D>
struct ops_<S, std::index_sequence<J...>, std::index_sequence<D...>> {
    using M = method_of<S>;
    using Sig = int(d::remove_virtual<typename kind<SHAPES[S][J]>::type>...);

    static void* resolve(Obj* const* objs) {
        return resolve_with(make_arg<SHAPES[S][J]>(
            kind<SHAPES[S][J]>::virt ? objs[vrank(S, J)] : nullptr, (int)J)...);
    }
    template<class... T>
    static void* resolve_with(T&&... args) {
        return (void*)M::fn.resolve(
            d::argument_traits<P, typename kind<SHAPES[S][J]>::type>::rarg(
                args)...);
    }
    static int call(Obj* const* objs) {
        return M::fn(make_arg<SHAPES[S][J]>(
            kind<SHAPES[S][J]>::virt ? objs[vrank(S, J)] : nullptr, (int)J)...);
    }
    static bool has_vptr_kind() {
        return ((SHAPES[S][J] == 'V' || SHAPES[S][J] == 'W' ||
                 SHAPES[S][J] == 'X') ||
                ...);
    }
    static MethodOps make() {
        MethodOps o{};
        o.shape = S;
        o.str = SHAPES[S];
        o.arity = shape_arity(S);
        o.info = &M::fn;
        void* pfs[] = {(void*)&body<S, (int)D, Sig>::fn...};
        for (int i = 0; i < rx::MAXD; ++i)
            o.pf[i] = pfs[i];
        o.resolve = resolve;
        o.call = call;
        o.has_vptr_kind = has_vptr_kind;
        return o;
    }
};

#ifndef HX_NSHAPES
#define HX_NSHAPES NSHAPES
#endif
constexpr int NUSED = HX_NSHAPES < NSHAPES ? HX_NSHAPES : NSHAPES;

template<int... S>
std::array<MethodOps, sizeof...(S)>
make_ops(std::integer_sequence<int, S...>) {
    return {ops_<
        S, std::make_index_sequence<SHAPES[S].size()>,
        std::make_index_sequence<rx::MAXD>>::make()...};
}
inline std::array<MethodOps, NUSED> g_ops;

inline int shape_index(std::string_view s, int nth = 0) {
    for (int i = 0; i < NUSED; ++i)
        if (SHAPES[i] == s && nth-- == 0)
            return i;
    return -1;
}

// ---------------------------------------------------------------------------
// registration records: zero-filled static storage, as real registration
// objects have.

struct RecStore {
    d::class_info info;
    type_id bases[rx::MAXC + 4];
};
inline RecStore* g_recs; // [MAXR]
struct DefStore {
    d::definition_info info;
    type_id vp[rx::MAXA + 1];
    void* next;
};
inline DefStore* g_defs; // [NUSED][MAXD]
inline type_id (*g_mvp)[rx::MAXA + 1]; // [NUSED] method vp ids (+flag)
inline std::size_t g_zero_words[4];

template<class T>
T* zalloc(std::size_t n) { // zero pages, never constructed, never destroyed
    void* p = calloc(n, sizeof(T));
    return static_cast<T*>(p);
}

template<class Pol>
void disable_trace() {
    if constexpr (Pol::template has_facet<policy::trace_output>)
        Pol::trace_enabled = false;
}

inline void init_bind() {
    init_ids();
    g_ops = make_ops(std::make_integer_sequence<int, NUSED>());
    g_recs = zalloc<RecStore>(rx::MAXR);
    g_defs = zalloc<DefStore>((std::size_t)NUSED * rx::MAXD);
    g_mvp = (type_id(*)[rx::MAXA + 1]) calloc(NUSED, sizeof(type_id[rx::MAXA + 1]));
    // the real method objects registered themselves during static
    // initialisation; take them all out, registries add the ones they use.
    P::methods.clear();
    P::classes.clear();
    disable_trace<P>();
}

// handler installation --------------------------------------------------
inline void install_throwing_handler() {
#ifndef HX_THROW_FACET
    P::error = [](const error_type& e) {
        g_err = e;
        ++g_err_count;
        throw Thrown{};
    };
#endif
}

// deprecated facet: the policy's default (backward compatible) error handler
// stays in place and forwards resolution errors to a throwing call_error
template<class Pol>
bool install_deprecated_throwing_handler() {
#ifndef HX_THROW_FACET
    if constexpr (std::is_base_of_v<
                      policy::backward_compatible_error_handler<Pol>, Pol>) {
        Pol::error =
            policy::backward_compatible_error_handler<Pol>::default_error_handler;
        Pol::call_error = [](const method_call_error& e, std::size_t arity,
                             type_id* types) {
            resolution_error re;
            re.status = e.code;
            re.method_name = e.method_name;
            re.arity = arity;
            for (std::size_t i = 0;
                 i < arity && i < resolution_error::max_types; ++i)
                re.types[i] = types[i];
            g_err = error_type(re);
            ++g_err_count;
            throw Thrown{};
        };
        return true;
    }
#endif
    return false;
}

// ---------------------------------------------------------------------------
// build a registry in the real catalogs and update

struct Built {
    std::optional<d::compiler<P>> comp;
    bool ok = false;
    std::optional<error_type> err; // error reported by update (if any)
};

inline void unregister_all() {
    for (auto& m : P::methods)
        m.specs.clear();
    P::methods.clear();
    P::classes.clear();
}

// In a real program every list of type ids is a static of
// type_id_list<Policy, types<...>>: class records, methods and definitions
// that name the same sequence of types share ONE array (and, with deferred
// ids, one in-band "resolved" flag). The harness reproduces that sharing.
struct ListPool {
    static constexpr int N = 4 * rx::MAXR + 64, W = rx::MAXC + 4;
    type_id store[N][W];
    int len[N];
    int n = 0;
};
inline ListPool* g_lists;
inline type_id* intern_list(const type_id* ids, int n) {
    if (!g_lists)
        g_lists = zalloc<ListPool>(1);
    ListPool& p = *g_lists;
    for (int i = 0; i < p.n; ++i)
        if (p.len[i] == n && memcmp(p.store[i], ids, n * sizeof(type_id)) == 0)
            return p.store[i];
    if (p.n == ListPool::N) {
        fprintf(stderr, "list pool exhausted\n");
        exit(2);
    }
    memcpy(p.store[p.n], ids, n * sizeof(type_id));
    p.store[p.n][n] = 0; // deferred: "not resolved yet" flag word
    p.len[p.n] = n;
    return p.store[p.n++];
}

inline void fill_records(const rx::Registry& r) {
    if (g_lists)
        g_lists->n = 0;
    for (int i = 0; i < r.nr; ++i) {
        const rx::Rec& rec = r.recs[i];
        RecStore& s = g_recs[i];
        memset((void*)&s, 0, sizeof s);
        s.info.type = reg_id(rec.cls, rec.alias);
        s.info.static_vptr = g_static_vptr[rec.cls];
        s.info.is_abstract = (r.abstract_mask >> rec.cls) & 1;
        for (int b = 0; b < rec.nb; ++b)
            s.bases[b] = reg_id(rec.bases[b], (rec.base_alias >> b) & 1);
        s.bases[rec.nb] = 0; // deferred: "not resolved yet" flag word
        if (rec.nb == 0 && is_deferred) {
            // whatever the library's own empty list is in this tree
            s.info.first_base = d::type_id_list<P, d::types<>>::begin;
            s.info.last_base = d::type_id_list<P, d::types<>>::end;
        } else {
            s.info.first_base = intern_list(s.bases, rec.nb);
            s.info.last_base = s.info.first_base + rec.nb;
        }
        P::classes.push_back(s.info);
    }
}

inline void fill_methods(const rx::Registry& r) {
    for (int mi = 0; mi < r.nm; ++mi) {
        const rx::Meth& m = r.meths[mi];
        MethodOps& o = g_ops[m.shape];
        if (o.arity != m.arity) {
            fprintf(stderr, "shape/arity mismatch\n");
            exit(2);
        }
        type_id* vp = g_mvp[m.shape];
        for (int k = 0; k < m.arity; ++k)
            vp[k] = reg_id(m.vp[k], (m.vp_alias >> k) & 1);
        vp[m.arity] = 0;
        o.info->vp_begin = intern_list(vp, m.arity);
        o.info->vp_end = o.info->vp_begin + m.arity;
        P::methods.push_back(*o.info);
        for (int di = 0; di < m.nd; ++di) {
            DefStore& s = g_defs[m.shape * rx::MAXD + di];
            memset((void*)&s, 0, sizeof s);
            s.info.method = o.info;
            s.info.type = o.info->method_type;
            s.info.next = &s.next;
            for (int k = 0; k < m.arity; ++k)
                s.vp[k] = reg_id(m.def[di][k], (m.def_alias[di] >> k) & 1);
            s.vp[m.arity] = 0;
            s.info.vp_begin = intern_list(s.vp, m.arity);
            s.info.vp_end = s.info.vp_begin + m.arity;
            s.info.pf = o.pf[di];
            s.next = (void*)0x1; // poison: update must overwrite
            o.info->specs.push_back(s.info);
        }
    }
}

inline void do_update(Built& b) {
    g_err.reset();
    try {
        b.comp.emplace(update<P>());
        b.ok = true;
    } catch (Thrown&) {
        b.err = g_err;
    }
#ifdef HX_THROW_FACET
    catch (unknown_class_error& e) {
        b.err = error_type(e);
    } catch (hash_search_error& e) {
        b.err = error_type(e);
    }
#endif
}

// fresh=1: before every update the policy's v-table pointer container is the one
// a fresh process has (no capacity left over from a larger earlier registry:
// a vector resized a little too short would otherwise go unnoticed)
inline bool g_fresh_storage = false;
template<class Pol>
auto fresh_storage(int) -> decltype((void)Pol::vptrs.clear()) {
    decltype(Pol::vptrs) empty;
    Pol::vptrs.swap(empty);
}
template<class Pol>
void fresh_storage(long) {
}

inline void build(const rx::Registry& r, Built& b) {
    if (g_fresh_storage)
        fresh_storage<P>(0);
    unregister_all();
    fill_records(r);
    fill_methods(r);
    do_update(b);
}

// map a compiler class back to its label
inline int label_of(const d::generic_compiler::class_& c) {
    return class_of_id(c.type_ids[0]);
}

// ---------------------------------------------------------------------------
// one call, observed

struct Obs {
    int outcome = rx::O_ERR; // def index, O_NONE, O_AMBIG, O_ERR
    int resolved = rx::O_ERR; // same coding, from resolve()'s pointer
    bool body_ran = false;
    bool threw = false;
    std::optional<resolution_error> rerr;
    std::optional<error_type> other;
    CallLog log;
};

inline int classify_pf(const rx::Meth& m, void* pf) {
    MethodOps& o = g_ops[m.shape];
    if (pf == o.info->not_implemented)
        return rx::O_NONE;
    if (pf == o.info->ambiguous)
        return rx::O_AMBIG;
    int found = rx::O_ERR;
    for (int di = 0; di < m.nd; ++di)
        if (pf == o.pf[di])
            found = di;
    return found;
}

inline void set_dyn(const int8_t* a, int arity, const uint8_t alias_bits = 0) {
    for (int k = 0; k < arity; ++k)
        g_objs[a[k]]->dyn = g_ids[a[k]][(alias_bits >> k) & 1];
}

inline Obs observe_call(
    const rx::Meth& m, const int8_t* a, bool do_resolve = true) {
    Obs ob;
    MethodOps& o = g_ops[m.shape];
    Obj* objs[rx::MAXA];
    for (int k = 0; k < m.arity; ++k)
        objs[k] = g_objs[a[k]];
    g_err.reset();
    g_log = CallLog();
    int before = g_bodies_run;
    try {
        if (do_resolve)
            ob.resolved = classify_pf(m, o.resolve(objs));
        int ret = o.call(objs);
        ob.outcome = ret;
        ob.body_ran = g_bodies_run != before;
        if (!ob.body_ran || g_log.meth != m.shape || g_log.def != ret)
            ob.outcome = rx::O_ERR;
    } catch (Thrown&) {
        ob.threw = true;
        ob.body_ran = g_bodies_run != before;
        if (g_err) {
            if (auto re = std::get_if<resolution_error>(&*g_err)) {
                ob.rerr = *re;
                ob.outcome = re->status == resolution_error::no_definition
                    ? rx::O_NONE
                    : re->status == resolution_error::ambiguous ? rx::O_AMBIG
                                                                 : rx::O_ERR;
            } else
                ob.other = g_err;
        }
    }
#ifdef HX_THROW_FACET
    catch (resolution_error& re) {
        ob.threw = true;
        ob.body_ran = g_bodies_run != before;
        ob.rerr = re;
        ob.outcome = re.status == resolution_error::no_definition ? rx::O_NONE
            : re.status == resolution_error::ambiguous            ? rx::O_AMBIG
                                                                  : rx::O_ERR;
    } catch (unknown_class_error& e) {
        ob.threw = true;
        ob.other = error_type(e);
    } catch (method_table_error& e) {
        ob.threw = true;
        ob.other = error_type(e);
    }
#endif
    ob.log = g_log;
    return ob;
}

inline int observed_next(const rx::Meth& m, int di) {
    DefStore& s = g_defs[m.shape * rx::MAXD + di];
    return classify_pf(m, s.next);
}

} // namespace hx
