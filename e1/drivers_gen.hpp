// drivers_gen.hpp - C12 (generated static offsets) and C13 (encoded dispatch
// data), run-time halves. Need a std_rtti policy (the generator prints
// demangled type names).
#pragma once
#include "drivers_unknown.hpp"

#include <yorel/yomm2/decode.hpp>

namespace drv {

// ---------------------------------------------------------------------------
// C12

inline bool parse_list(const std::string& text, size_t& pos, std::vector<long>& out) {
    // expects "{a, b, c}" starting at or after pos
    size_t b = text.find('{', pos);
    size_t e = text.find('}', b);
    if (b == std::string::npos || e == std::string::npos)
        return false;
    std::string body = text.substr(b + 1, e - b - 1);
    const char* p = body.c_str();
    while (*p) {
        while (*p == ' ' || *p == ',')
            ++p;
        if (!*p)
            break;
        char* end;
        long v = strtol(p, &end, 0);
        if (end == p)
            return false;
        out.push_back(v);
        p = end;
    }
    pos = e + 1;
    return true;
}

struct ParsedOffsets {
    std::vector<long> slots, strides;
};

// one line per method, in the order of Policy::methods
inline bool parse_static_offsets(const std::string& text, std::vector<ParsedOffsets>& out) {
    size_t pos = 0;
    while (true) {
        size_t at = text.find("static_offsets<", pos);
        if (at == std::string::npos)
            return true;
        size_t line_end = text.find('\n', at);
        std::string line = text.substr(at, line_end - at);
        ParsedOffsets po;
        size_t p = line.find("slots[] =");
        if (p == std::string::npos)
            return false;
        if (!parse_list(line, p, po.slots))
            return false;
        size_t q = line.find("strides[] =");
        if (q != std::string::npos)
            if (!parse_list(line, q, po.strides))
                return false;
        out.push_back(po);
        pos = line_end == std::string::npos ? text.size() : line_end + 1;
    }
}

template<int S>
void fill_static(const std::vector<long>& slots, const std::vector<long>& strides) {
    using SO = yorel::yomm2::detail::static_offsets<hx::method_of<S>>;
    for (size_t i = 0; i < slots.size(); ++i)
        SO::slots[i] = (std::size_t)slots[i];
    if constexpr (hx::shape_arity(S) > 1)
        for (size_t i = 0; i < strides.size(); ++i)
            SO::strides[i] = (std::size_t)strides[i];
}

inline void fill_static_for(int shape, const std::vector<long>& slots, const std::vector<long>& strides) {
    switch (shape) {
    case hx::SO_BASE + 0:
        fill_static<hx::SO_BASE + 0>(slots, strides);
        break;
    case hx::SO_BASE + 1:
        fill_static<hx::SO_BASE + 1>(slots, strides);
        break;
    case hx::SO_BASE + 2:
        fill_static<hx::SO_BASE + 2>(slots, strides);
        break;
    case hx::SO_BASE + 3:
        fill_static<hx::SO_BASE + 3>(slots, strides);
        break;
    case hx::SO_BASE + 4:
        fill_static<hx::SO_BASE + 4>(slots, strides);
        break;
    case hx::SO_BASE + 5:
        fill_static<hx::SO_BASE + 5>(slots, strides);
        break;
    case hx::SO_BASE + 6:
        fill_static<hx::SO_BASE + 6>(slots, strides);
        break;
    case hx::SO_BASE + 7:
        fill_static<hx::SO_BASE + 7>(slots, strides);
        break;
    }
}

inline std::string list_text(const std::vector<long>& v) {
    std::string s = "{";
    for (size_t i = 0; i < v.size(); ++i)
        s += (i ? "," : "") + std::to_string(v[i]);
    return s + "}";
}
template<class V>
std::string list_text_sz(const V& v) {
    std::string s = "{";
    size_t i = 0;
    for (auto x : v)
        s += (i++ ? "," : "") + std::to_string(x);
    return s + "}";
}

inline void check_offsets(const rx::Registry& r, std::vector<Viol>& out) {
    using namespace yorel::yomm2;
    hx::Built b;
    hx::build(r, b);
    COUNT("updates", 1);
    COUNT("registrations", r.nr + r.nm);
    if (!b.ok) {
        out.push_back({"update_failed", "update reported " + err_text(b.err)});
        return;
    }
    std::ostringstream os;
    generator().write_static_offsets<hx::P>(os);
    COUNT("generator_runs", 1);
    std::string text = os.str();
    {
        // a generator object that lives across updates must write the same
        static generator long_lived;
        std::ostringstream os2;
        long_lived.write_static_offsets<hx::P>(os2);
        COUNT("generator_runs", 1);
        if (os2.str() != text) {
            out.push_back(
                {"generator_output_depends_on_its_history",
                 "a fresh generator wrote [" + text + "] a long-lived one [" + os2.str() + "]"});
            return;
        }
    }
    std::vector<ParsedOffsets> parsed;
    if (!parse_static_offsets(text, parsed) || (int)parsed.size() != r.nm) {
        out.push_back({"offsets_text_malformed", text});
        return;
    }
    // (1) numbers, position by position
    for (int mi = 0; mi < r.nm; ++mi) {
        const rx::Meth& m = r.meths[mi];
        auto& cm = b.comp->methods[mi];
        const std::size_t* ss = hx::g_ops[m.shape].info->slots_strides_ptr;
        std::vector<long> want_slots(cm.slots.begin(), cm.slots.end());
        std::vector<long> want_strides(cm.strides.begin(), cm.strides.end());
        std::vector<long> inst_slots, inst_strides;
        for (int i = 0; i < m.arity; ++i)
            inst_slots.push_back((long)ss[i]);
        for (int i = 1; i < m.arity; ++i)
            inst_strides.push_back((long)ss[m.arity + i - 1]);
        COUNT("offset_numbers", 2 * m.arity - 1);
        if (inst_slots != want_slots || inst_strides != want_strides)
            out.push_back(
                {"installed_offsets_differ_from_compiler",
                 "method " + std::to_string(mi) + " installed slots=" +
                     list_text(inst_slots) + " strides=" + list_text(inst_strides) +
                     " compiler slots=" + list_text(want_slots) +
                     " strides=" + list_text(want_strides)});
        if (parsed[mi].slots != want_slots || parsed[mi].strides != want_strides)
            out.push_back(
                {"generated_offsets_wrong",
                 "method " + std::to_string(mi) + " arity " + std::to_string(m.arity) +
                     " generated slots=" + list_text(parsed[mi].slots) +
                     " strides=" + list_text(parsed[mi].strides) +
                     " installed slots=" + list_text(want_slots) +
                     " strides=" + list_text(want_strides)});
    }
    if (!out.empty())
        return;
    // (2) a program using the generated numbers dispatches identically (and
    // the checked policy accepts them)
    int si = 0;
    for (int mi = 0; mi < r.nm; ++mi)
        if (r.meths[mi].shape >= hx::SO_BASE)
            si = mi;
    const rx::Meth& m0 = r.meths[si];
    fill_static_for(m0.shape, parsed[si].slots, parsed[si].strides);
    int8_t first_tuple[rx::MAXA];
    bool have_tuple = false;
    rx::for_each_tuple(r.po, m0, [&](const int8_t* a) {
        if (!have_tuple) {
            memcpy(first_tuple, a, rx::MAXA);
            have_tuple = true;
        }
        int exp = rx::expected_call(r.po, m0, a);
        hx::set_dyn(a, m0.arity);
        hx::Obs ob = hx::observe_call(m0, a);
        COUNT("calls", 2);
        if (ob.outcome != exp || ob.resolved != exp)
            out.push_back(
                {"static_offsets_dispatch_differs",
                 "args=(" + tuple_text(a, m0.arity) + ") expected=" +
                     std::to_string(exp) + " ran=" + std::to_string(ob.outcome) +
                     " resolved=" + std::to_string(ob.resolved) +
                     " error=" + err_text(ob.other)});
    });
    if (!out.empty() || !have_tuple)
        return;
    // (3) the consistency check rejects every other value
    if constexpr (hx::has_checks) {
        auto expect_rejected = [&](const std::vector<long>& s, const std::vector<long>& t,
                                   const char* which, bool stride) {
            fill_static_for(m0.shape, s, t);
            hx::set_dyn(first_tuple, m0.arity);
            hx::Obs ob = hx::observe_call(m0, first_tuple);
            COUNT("calls", 2);
            COUNT("perturbations", 1);
            bool ok = false;
            if (ob.threw && ob.other) {
                if (stride)
                    ok = std::get_if<static_stride_error>(&*ob.other) != nullptr;
                else
                    ok = std::get_if<static_slot_error>(&*ob.other) != nullptr;
            }
            if (!ok || ob.body_ran)
                out.push_back(
                    {"wrong_static_offset_accepted",
                     std::string(which) + " slots=" + list_text(s) + " strides=" +
                         list_text(t) + " ran=" + std::to_string(ob.outcome) +
                         " error=" + err_text(ob.other)});
        };
        for (size_t i = 0; i < parsed[si].slots.size(); ++i)
            for (long dlt : {1L, 7L}) {
                auto s = parsed[si].slots;
                s[i] += dlt;
                expect_rejected(s, parsed[si].strides, "perturbed slot", false);
            }
        for (size_t i = 0; i < parsed[si].strides.size(); ++i)
            for (long dlt : {1L, 5L}) {
                auto t = parsed[si].strides;
                t[i] += dlt;
                expect_rejected(parsed[si].slots, t, "perturbed stride", true);
            }
        fill_static_for(m0.shape, parsed[si].slots, parsed[si].strides);
    }
}

// registries for C12: method 0 has static offsets (shape SO_BASE + k - 1),
// method 1 is an ordinary unary method so that slots are not all zero
template<class F>
void for_each_offsets_registry(const SpaceSpec& sp, F&& f) {
    // vp=1: the same arities with virtual_ptr parameters (V, RV, VRV, RVRV)
    int shape = hx::SO_BASE + sp.k - 1 +
        (sp.kv.count("vp") && atoi(sp.kv.at("vp").c_str()) ? 4 : 0);
    int extra = hx::shape_index("R");
    for (int n = sp.nlo; n <= sp.nhi; ++n)
        rx::for_each_poset(n, [&](const rx::Poset& po) {
            rx::Registry r;
            r.po = po;
            rx::Meth& m = r.meths[0];
            rx::for_each_vp(n, sp.k, m, [&] {
                auto legal = rx::legal_defs(po, sp.k, m.vp);
                rx::for_each_defset(legal, sp.d, m, [&] {
                    m.shape = shape;
                    for (int ev = 0; ev < n; ++ev)
                        for (int order = 0; order < 2; ++order)
                            for (auto pres : sp.pres) {
                                rx::Registry rr = r;
                                rx::Meth e;
                                e.shape = extra;
                                e.arity = 1;
                                e.vp[0] = ev;
                                e.nd = 1;
                                e.def[0][0] = ev;
                                rr.nm = 2;
                                rr.meths[1] = e;
                                rx::present(rr, pres, false);
                                rx::Registry ro = rr;
                                if (order) // static-offset method registered second
                                    std::swap(ro.meths[0], ro.meths[1]);
                                f(rr, ro);
                            }
                });
            });
        });
}

inline int offsets_main() {
    auto& o = run::g_opts;
    run::declare_counters(
        {"registries", "nontrivial", "updates", "registrations", "calls",
         "generator_runs", "offset_numbers", "perturbations", "mi_registries"});
    auto run_one = [&](const rx::Registry&, const rx::Registry& ordered,
                       std::vector<Viol>& v) { check_offsets(ordered, v); };
    if (!o.replay.empty()) {
        run::g_sh = new run::Shared();
        run::g_out = stdout;
        rx::Registry r = rx::from_text(o.replay.c_str());
        std::vector<Viol> v;
        run_one(r, r, v);
        for (auto& x : v)
            printf("VIOL\t%s\t%s\n", x.kind.c_str(), x.detail.c_str());
        return v.empty() ? 0 : 1;
    }
    auto spaces = parse_spaces(o.space);
    return run::run_sharded([&] {
        long samples = 0;
        for (auto& sp : spaces)
            for_each_offsets_registry(sp, [&](const rx::Registry& canon, const rx::Registry& r) {
                if (!run::g_gate.take(r))
                    return;
                COUNT("registries", 1);
                if (rx::has_mi(r.po)) {
                    COUNT("mi_registries", 1);
                    COUNT("nontrivial", 1);
                } else if (sp.k >= 3)
                    COUNT("nontrivial", 1);
                std::vector<Viol> v;
                run_one(canon, r, v);
                for (auto& x : v)
                    run::candidate(x.kind.c_str(), rx::to_text(r), x.detail);
                if (o.shard == 0 && samples < 3 && r.po.n >= 3 && run::g_gate.idx % 17 == 0) {
                    ++samples;
                    run::sample(rx::to_text(r));
                }
            });
    });
}

// ---------------------------------------------------------------------------
// C13

struct Encoded {
    long headroom = 0, nslots = 0, nenc = 0, ndec = 0, ndtbl = 0;
    std::vector<long> slots, vtbls, dtbls;
    std::string why;
};

// nested brace lists of numbers
struct Node {
    bool leaf = false;
    long value = 0;
    std::vector<Node> kids;
};
inline bool parse_node(const char*& p, Node& n) {
    while (*p == ' ' || *p == '\n' || *p == '\t')
        ++p;
    if (*p == '{') {
        ++p;
        while (true) {
            while (*p == ' ' || *p == '\n' || *p == '\t' || *p == ',')
                ++p;
            if (*p == '}') {
                ++p;
                return true;
            }
            if (!*p)
                return false;
            Node k;
            if (!parse_node(p, k))
                return false;
            n.kids.push_back(k);
        }
    }
    char* end;
    long v = strtol(p, &end, 0);
    if (end == p)
        return false;
    n.leaf = true;
    n.value = v;
    p = end;
    return true;
}

inline bool parse_encoded(const std::string& raw, Encoded& e) {
    // strip comments
    std::string text;
    for (size_t i = 0; i < raw.size(); ++i) {
        if (raw[i] == '/' && i + 1 < raw.size() && raw[i + 1] == '/') {
            while (i < raw.size() && raw[i] != '\n')
                ++i;
        }
        if (i < raw.size())
            text += raw[i];
    }
    auto size_after = [&](const char* key, size_t from, long& v) -> size_t {
        size_t at = text.find(key, from);
        if (at == std::string::npos)
            return at;
        v = strtol(text.c_str() + at + strlen(key), nullptr, 10);
        return at + 1;
    };
    size_t p = 0;
    if ((p = size_after("headroom[", 0, e.headroom)) == std::string::npos ||
        (p = size_after("slots[", p, e.nslots)) == std::string::npos ||
        (p = size_after("vtbls[", p, e.nenc)) == std::string::npos ||
        (p = size_after("vtbls[", p, e.ndec)) == std::string::npos ||
        (p = size_after("dtbls[", p, e.ndtbl)) == std::string::npos) {
        e.why = "declaration not found";
        return false;
    }
    size_t init = text.find("yomm2_dispatch_data =");
    if (init == std::string::npos) {
        e.why = "initializer not found";
        return false;
    }
    const char* cp = text.c_str() + init + strlen("yomm2_dispatch_data =");
    Node root;
    if (!parse_node(cp, root)) {
        e.why = "initializer does not parse";
        return false;
    }
    // { { { {}, {slots}, {vtbls} } }, {dtbls} }
    if (root.kids.size() != 2 || root.kids[0].kids.size() != 1 ||
        root.kids[0].kids[0].kids.size() != 3) {
        e.why = "initializer has an unexpected shape";
        return false;
    }
    auto flat = [&](const Node& n, std::vector<long>& out) {
        for (auto& k : n.kids) {
            if (!k.leaf)
                return false;
            out.push_back(k.value);
        }
        return true;
    };
    if (!flat(root.kids[0].kids[0].kids[1], e.slots) ||
        !flat(root.kids[0].kids[0].kids[2], e.vtbls) || !flat(root.kids[1], e.dtbls)) {
        e.why = "nested initializer";
        return false;
    }
    return true;
}

struct DataView {
    struct {
        std::uint16_t* slots;
        std::uint16_t* vtbls;
    } encoded;
    std::uintptr_t* vtbls;
    std::uintptr_t* dtbls;
};

// reference decoder over the parsed arrays: consumption and in-place safety
inline std::string simulate_decode(const rx::Registry& r, const Encoded& e) {
    using namespace yorel::yomm2;
    // slots and strides
    long need = 0;
    for (int mi = 0; mi < r.nm; ++mi)
        need += 2 * r.meths[mi].arity - 1;
    if (need != (long)e.slots.size() || need != e.nslots)
        return "slots/strides: " + std::to_string(e.slots.size()) + " values, array of " +
            std::to_string(e.nslots) + ", methods need " + std::to_string(need);
    // dispatch tables: one stop bit per multi-method
    size_t di = 0;
    for (int mi = 0; mi < r.nm; ++mi)
        if (r.meths[mi].arity > 1) {
            bool more = true;
            while (more) {
                if (di >= e.dtbls.size())
                    return "dispatch tables: decoder reads past the " +
                        std::to_string(e.dtbls.size()) + " emitted cells";
                long code = e.dtbls[di++];
                more = !(code & stop_bit);
                if ((code & ~stop_bit) >= r.meths[mi].nd + 2)
                    return "dispatch tables: definition index out of range";
            }
        }
    if (di != e.dtbls.size() || (long)e.dtbls.size() > e.ndtbl)
        return "dispatch tables: " + std::to_string(e.dtbls.size()) + " cells emitted, " +
            std::to_string(di) + " consumed, array of " + std::to_string(e.ndtbl);
    // v-tables, in the order of the class records (first record per class)
    size_t ri = 0; // read index in encoded vtbls
    long wi = 0;   // write index in decoded vtbls
    long read_base = 2 * (e.headroom + e.nslots); // byte offset of encoded.vtbls
    bool seen[rx::MAXC] = {};
    for (int i = 0; i < r.nr; ++i) {
        int c = r.recs[i].cls;
        if (seen[c])
            continue;
        seen[c] = true;
        auto fetch = [&](long& code, bool& last) -> bool {
            if (ri >= e.vtbls.size())
                return false;
            // in place: the word about to be read must not have been overwritten
            if (read_base + 2 * (long)ri < 8 * wi)
                return false;
            code = e.vtbls[ri++];
            last = code & stop_bit;
            code &= ~stop_bit;
            return true;
        };
        long code;
        bool last = false;
        if (!fetch(code, last))
            return "v-tables: decoder reads past / over its own output at class " + std::to_string(c);
        if (last) // a class without v-table entries ends right here
            continue;
        bool lastw;
        do {
            if (!fetch(code, lastw))
                return "v-tables: decoder reads past / over its own output in class " +
                    std::to_string(c) + " (encoded words " + std::to_string(e.vtbls.size()) +
                    ", read " + std::to_string(ri) + ", written " + std::to_string(wi) + ")";
            last = lastw;
            if (!(code & index_bit)) {
                long grp;
                bool l2;
                if (code >= r.nm)
                    return "v-tables: method index out of range";
                if (!fetch(grp, l2))
                    return "v-tables: decoder reads past its input (group word)";
                last = l2;
            }
            if (wi >= e.ndec)
                return "v-tables: decoder writes entry " + std::to_string(wi) +
                    " of a decoded array of " + std::to_string(e.ndec);
            ++wi;
        } while (!last);
    }
    if (ri != e.vtbls.size())
        return "v-tables: " + std::to_string(e.vtbls.size()) + " words emitted, " +
            std::to_string(ri) + " consumed";
    return "";
}

inline void check_encode(const rx::Registry& r, std::vector<Viol>& out) {
    using namespace yorel::yomm2;
    hx::Built b;
    hx::build(r, b);
    COUNT("updates", 1);
    COUNT("registrations", r.nr + r.nm);
    if (!b.ok) {
        out.push_back({"update_failed", "update reported " + err_text(b.err)});
        return;
    }
    // outcomes after update, for the comparison after decode
    std::vector<int> after_update;
    for (int mi = 0; mi < r.nm; ++mi)
        rx::for_each_tuple(r.po, r.meths[mi], [&](const int8_t* a) {
            hx::set_dyn(a, r.meths[mi].arity);
            hx::Obs ob = hx::observe_call(r.meths[mi], a);
            COUNT("calls", 2);
            after_update.push_back(ob.outcome);
        });
    std::ostringstream os;
    run::note("encode");
    generator::encode_dispatch_data(*b.comp, "P", os);
    COUNT("encodings", 1);
    std::string text = os.str();
    Encoded e;
    if (!parse_encoded(text, e)) {
        out.push_back({"encoded_text_malformed", e.why});
        return;
    }
    // (1) acceptable to a compiler
    if (e.headroom < 0 || e.nslots < 0 || e.nenc < 0 || e.ndec < 0 || e.ndtbl < 0) {
        out.push_back(
            {"negative_array_size",
             "headroom[" + std::to_string(e.headroom) + "] slots[" + std::to_string(e.nslots) +
                 "] vtbls[" + std::to_string(e.nenc) + "] vtbls[" + std::to_string(e.ndec) +
                 "] dtbls[" + std::to_string(e.ndtbl) + "]"});
        return;
    }
    if ((long)e.slots.size() > e.nslots || (long)e.vtbls.size() > e.nenc ||
        (long)e.dtbls.size() > e.ndtbl) {
        out.push_back(
            {"too_many_initializers",
             "slots " + std::to_string(e.slots.size()) + "/" + std::to_string(e.nslots) +
                 " vtbls " + std::to_string(e.vtbls.size()) + "/" + std::to_string(e.nenc) +
                 " dtbls " + std::to_string(e.dtbls.size()) + "/" + std::to_string(e.ndtbl)});
        return;
    }
    for (auto v : e.slots)
        if (v < 0 || v > 0xffff)
            out.push_back({"value_does_not_fit", "slot/stride " + std::to_string(v)});
    for (auto v : e.vtbls)
        if (v < 0 || v > 0xffff)
            out.push_back({"value_does_not_fit", "v-table word " + std::to_string(v)});
    if (!out.empty())
        return;
    // (2a) reference decoder: consumption and in-place safety
    std::string why = simulate_decode(r, e);
    if (!why.empty()) {
        out.push_back({"decoder_leaves_structure", why});
        return;
    }
    // (2b) the real decoder on a buffer laid out like the emitted struct,
    // between guard pages (end aligned, then start aligned)
    long enc_bytes = 2 * (e.headroom + e.nslots + e.nenc);
    long dec_bytes = 8 * e.ndec;
    long union_bytes = std::max(enc_bytes, dec_bytes);
    union_bytes = (union_bytes + 7) / 8 * 8;
    long total = union_bytes + 8 * e.ndtbl;
    if (total == 0)
        total = 8;
    const long page = 4096;
    long pages = (total + page - 1) / page;
    for (int align_end = 1; align_end >= 0; --align_end) {
        char* region = (char*)mmap(
            nullptr, (pages + 2) * page, PROT_READ | PROT_WRITE,
            MAP_PRIVATE | MAP_ANONYMOUS, -1, 0);
        mprotect(region, page, PROT_NONE);
        mprotect(region + (pages + 1) * page, page, PROT_NONE);
        char* base = align_end ? region + (pages + 1) * page - ((total + 7) / 8 * 8)
                               : region + page;
        memset(region + page, 0xEE, pages * page);
        auto* enc = (std::uint16_t*)base;
        for (long i = 0; i < e.headroom; ++i)
            enc[i] = 0;
        for (size_t i = 0; i < e.slots.size(); ++i)
            enc[e.headroom + i] = (std::uint16_t)e.slots[i];
        for (long i = (long)e.slots.size(); i < e.nslots; ++i)
            enc[e.headroom + i] = 0;
        for (size_t i = 0; i < e.vtbls.size(); ++i)
            enc[e.headroom + e.nslots + i] = (std::uint16_t)e.vtbls[i];
        auto* dt = (std::uintptr_t*)(base + union_bytes);
        for (size_t i = 0; i < e.dtbls.size(); ++i)
            dt[i] = (std::uintptr_t)e.dtbls[i];
        DataView view;
        view.encoded.slots = enc + e.headroom;
        view.encoded.vtbls = enc + e.headroom + e.nslots;
        view.vtbls = (std::uintptr_t*)base;
        view.dtbls = dt;
        // what a fresh process holding the same registrations has
        for (int c = 0; c < hx::NK; ++c)
            *hx::g_static_vptr[c] = nullptr;
        for (int mi = 0; mi < r.nm; ++mi) {
            std::size_t* ss = hx::g_ops[r.meths[mi].shape].info->slots_strides_ptr;
            for (int i = 0; i < 2 * r.meths[mi].arity - 1; ++i)
                ss[i] = 0xdead;
        }
        hx::P::dispatch_data.clear();
        run::note(align_end ? "decode (end aligned)" : "decode (start aligned)");
        try {
            decode_dispatch_data<hx::P>(view);
        } catch (hx::Thrown&) {
            out.push_back({"decode_reported_error", err_text(hx::g_err)});
        }
        COUNT("decodes", 1);
        // (3) every call behaves exactly as after update
        if (out.empty()) {
            run::note("calls after decode");
            size_t k = 0;
            for (int mi = 0; mi < r.nm; ++mi)
                rx::for_each_tuple(r.po, r.meths[mi], [&](const int8_t* a) {
                    hx::set_dyn(a, r.meths[mi].arity);
                    hx::Obs ob = hx::observe_call(r.meths[mi], a);
                    COUNT("calls", 2);
                    int exp = rx::expected_call(r.po, r.meths[mi], a);
                    if (ob.outcome != after_update[k] || ob.outcome != exp || ob.resolved != exp)
                        out.push_back(
                            {"dispatch_differs_after_decode",
                             "m=" + std::to_string(mi) + " args=(" +
                                 tuple_text(a, r.meths[mi].arity) + ") after update " +
                                 std::to_string(after_update[k]) + " after decode " +
                                 std::to_string(ob.outcome) + "/" + std::to_string(ob.resolved)});
                    ++k;
                });
        }
        munmap(region, (pages + 2) * page);
        if (!out.empty())
            return;
    }
}

inline int encode_main() {
    auto& o = run::g_opts;
    run::declare_counters(
        {"registries", "nontrivial", "updates", "registrations", "calls",
         "encodings", "decodes", "mi_registries", "first_slot_nonzero",
         "empty_vtbl", "unused_classes"});
    if (!o.replay.empty()) {
        run::g_sh = new run::Shared();
        run::g_out = stdout;
        rx::Registry r = rx::from_text(o.replay.c_str());
        std::vector<Viol> v;
        check_encode(r, v);
        for (auto& x : v)
            printf("VIOL\t%s\t%s\n", x.kind.c_str(), x.detail.c_str());
        return v.empty() ? 0 : 1;
    }
    auto spaces = parse_spaces(o.space);
    return run::run_sharded([&] {
        long samples = 0;
        for (auto& sp : spaces)
            for_each_method_set_registry(sp, [&](const rx::Registry& r) {
                if (!run::g_gate.take(r))
                    return;
                COUNT("registries", 1);
                bool unused = false;
                for (int c = 0; c < r.po.n; ++c) {
                    bool used = false;
                    for (int mi = 0; mi < r.nm; ++mi)
                        for (int k = 0; k < r.meths[mi].arity; ++k)
                            if (rx::le(r.po, c, r.meths[mi].vp[k]))
                                used = true;
                    if (!used)
                        unused = true;
                }
                if (unused)
                    COUNT("unused_classes", 1);
                if (rx::has_mi(r.po))
                    COUNT("mi_registries", 1);
                if (rx::has_mi(r.po) || unused)
                    COUNT("nontrivial", 1);
                std::vector<Viol> v;
                check_encode(r, v);
                for (auto& x : v)
                    run::candidate(x.kind.c_str(), rx::to_text(r), x.detail);
                if (o.shard == 0 && samples < 3 && rx::has_mi(r.po) && run::g_gate.idx % 13 == 0) {
                    ++samples;
                    run::sample(rx::to_text(r));
                }
            });
    });
}

} // namespace drv
