#pragma once
#include "drivers_unknown.hpp"
namespace drv {
inline int offsets_main() { return 2; }
inline int encode_main() { return 2; }
}
