// drivers_dispatch.hpp - C01 / C02 / C03 (and the dispatch half of C10):
// every registry of a space -> real update -> every legal tuple through the
// real resolve and the real operator() -> compare with the reference model.
#pragma once
#include "space.hpp"

namespace drv {

struct Viol {
    std::string kind, detail;
};

inline std::string err_text(const std::optional<hx::error_type>& e) {
    using namespace yorel::yomm2;
    if (!e)
        return "none";
    if (auto x = std::get_if<unknown_class_error>(&*e))
        return "unknown_class(" + std::to_string(hx::class_of_id(x->type)) + ")";
    if (auto x = std::get_if<resolution_error>(&*e))
        return "resolution(" + std::to_string((int)x->status) + ")";
    if (std::get_if<hash_search_error>(&*e))
        return "hash_search";
    if (auto x = std::get_if<method_table_error>(&*e))
        return "method_table(" + std::to_string(hx::class_of_id(x->type)) + ")";
    if (std::get_if<static_slot_error>(&*e))
        return "static_slot";
    if (std::get_if<static_stride_error>(&*e))
        return "static_stride";
    return "error";
}

// Applies the oracles selected by `props` (substring match on "C01" ..) to one
// registry. Appends violations. `obs_text` (optional) receives every
// observation for the second oracle.
inline void check_dispatch(
    const rx::Registry& r, const std::string& props, std::vector<Viol>& out,
    std::string* obs_text = nullptr) {
    const bool c01 = props.find("C01") != std::string::npos;
    const bool c02 = props.find("C02") != std::string::npos;
    const bool c03 = props.find("C03") != std::string::npos;

    hx::Built b;
    run::note("update");
    hx::build(r, b);
    COUNT("updates", 1);
    COUNT("registrations", r.nr + r.nm);
    if (!b.ok) {
        out.push_back({"update_failed", "update reported " + err_text(b.err)});
        return;
    }

    for (int mi = 0; mi < r.nm; ++mi) {
        const rx::Meth& m = r.meths[mi];
        COUNT("registrations", m.nd);
        const std::string_view shape = hx::SHAPES[m.shape];

        // a tuple for which the oracle selects a definition: used to check
        // that dispatch still works after an error was thrown
        int8_t witness[rx::MAXA];
        int witness_exp = rx::O_NONE;
        rx::for_each_tuple(r.po, m, [&](const int8_t* a) {
            if (witness_exp < 0) {
                int e = rx::expected_call(r.po, m, a);
                if (e >= 0) {
                    witness_exp = e;
                    memcpy(witness, a, rx::MAXA);
                }
            }
        });

        run::note("calls");
        rx::for_each_tuple(r.po, m, [&](const int8_t* a) {
            int exp = rx::expected_call(r.po, m, a);
            hx::set_dyn(a, m.arity);
            hx::Obs ob = hx::observe_call(m, a);
            COUNT("calls", 2); // resolve + call
            if (exp >= 0)
                COUNT("cells_def", 1);
            else if (exp == rx::O_NONE)
                COUNT("cells_none", 1);
            else
                COUNT("cells_ambig", 1);
            if (obs_text)
                *obs_text += "m" + std::to_string(mi) + "(" +
                    tuple_text(a, m.arity) + ")=" + std::to_string(ob.outcome) +
                    "/" + std::to_string(ob.resolved) + " ";
            auto where = [&] {
                return "m=" + std::to_string(mi) + " shape=" +
                    std::string(shape) + " args=(" + tuple_text(a, m.arity) +
                    ") expected=" + std::to_string(exp) +
                    " resolved=" + std::to_string(ob.resolved) +
                    " ran=" + std::to_string(ob.outcome) +
                    (ob.other ? " error=" + err_text(ob.other) : "");
            };
            if (c01) {
                if (exp >= 0) {
                    if (ob.resolved != exp || ob.outcome != exp)
                        out.push_back({"wrong_definition", where()});
                    else {
                        // arguments arrive at the body unchanged
                        int vk = 0;
                        bool ok = ob.log.nargs == (int)shape.size();
                        for (int j = 0; ok && j < (int)shape.size(); ++j) {
                            std::uintptr_t want = shape[j] == 'N'
                                ? (std::uintptr_t)(100 + j)
                                : (std::uintptr_t)hx::g_objs[a[vk++]];
                            if (ob.log.arg[j] != want)
                                ok = false;
                        }
                        if (!ok)
                            out.push_back({"wrong_arguments", where()});
                    }
                } else if (ob.body_ran || ob.outcome >= 0 || ob.resolved >= 0) {
                    out.push_back({"definition_ran_for_error_cell", where()});
                }
            }
            if (c02 && exp < 0) {
                COUNT("error_cells_checked", 1);
                std::string bad;
                if (ob.body_ran)
                    bad += "body_ran ";
                if (!ob.threw)
                    bad += "no_exception ";
                if (ob.resolved != exp)
                    bad += "resolve_pointer ";
                if (!ob.rerr)
                    bad += "no_resolution_error ";
                else {
                    if (ob.outcome != exp)
                        bad += "status ";
                    if ((int)ob.rerr->arity != m.arity)
                        bad += "arity=" + std::to_string(ob.rerr->arity) + " ";
                    bool ids = true;
                    for (int k = 0; k < m.arity; ++k)
                        if (ob.rerr->types[k] != hx::g_objs[a[k]]->dyn &&
                            !(hx::g_ops[m.shape].has_vptr_kind()))
                            ids = false;
                    if (!ids) {
                        bad += "types=[";
                        for (int k = 0; k < m.arity; ++k)
                            bad += std::to_string(hx::class_of_id(
                                       ob.rerr->types[k])) +
                                (k + 1 < m.arity ? "," : "");
                        bad += "] ";
                    }
                }
                if (!bad.empty())
                    out.push_back({"bad_error_report", where() + " wrong: " + bad});
                // a later call still dispatches correctly
                if (witness_exp >= 0) {
                    hx::set_dyn(witness, m.arity);
                    hx::Obs w = hx::observe_call(m, witness, false);
                    COUNT("calls", 1);
                    if (w.outcome != witness_exp)
                        out.push_back(
                            {"call_after_error",
                             where() + " then (" + tuple_text(witness, m.arity) +
                                 ") ran " + std::to_string(w.outcome) +
                                 " expected " + std::to_string(witness_exp)});
                }
            }
        });

        if (c03) {
            run::note("next");
            for (int di = 0; di < m.nd; ++di) {
                int exp = rx::expected_next(r.po, m, di);
                int got = hx::observed_next(m, di);
                COUNT("nexts", 1);
                if (exp >= 0)
                    COUNT("next_def", 1);
                else if (exp == rx::O_NONE)
                    COUNT("next_none", 1);
                else
                    COUNT("next_ambig", 1);
                if (obs_text)
                    *obs_text += "n" + std::to_string(mi) + "." +
                        std::to_string(di) + "=" + std::to_string(got) + " ";
                if (exp != got)
                    out.push_back(
                        {"wrong_next",
                         "m=" + std::to_string(mi) + " def=" +
                             std::to_string(di) + " expected=" +
                             std::to_string(exp) + " got=" + std::to_string(got)});
            }
        }
    }
}

inline void declare_dispatch_counters() {
    run::declare_counters(
        {"registries", "nontrivial", "updates", "registrations", "calls",
         "cells_def", "cells_none", "cells_ambig", "error_cells_checked",
         "nexts", "next_def", "next_none", "next_ambig", "mi_registries"});
}

inline int dispatch_main() {
    auto& o = run::g_opts;
    declare_dispatch_counters();
    if (!o.replay.empty()) {
        run::g_sh = new run::Shared();
        run::g_out = stdout;
        rx::Registry r = rx::from_text(o.replay.c_str());
        std::vector<Viol> v;
        std::string obs;
        check_dispatch(r, o.props, v, &obs);
        printf("OBS\t%s\n", obs.c_str());
        for (auto& x : v)
            printf("VIOL\t%s\t%s\n", x.kind.c_str(), x.detail.c_str());
        return v.empty() ? 0 : 1;
    }
    auto spaces = parse_spaces(o.space);
    return run::run_sharded([&] {
        long samples = 0;
        for (auto& sp : spaces)
            for_each_single_method_registry(sp, [&](const rx::Registry& r) {
                if (!run::g_gate.take(r))
                    return;
                COUNT("registries", 1);
                if (registry_nontrivial(r))
                    COUNT("nontrivial", 1);
                if (rx::has_mi(r.po))
                    COUNT("mi_registries", 1);
                std::vector<Viol> v;
                std::string obs;
                bool dumpit = run::g_gate.want_dump();
                check_dispatch(r, o.props, v, dumpit ? &obs : nullptr);
                if (dumpit)
                    run::dump(rx::to_text(r), obs);
                for (auto& x : v)
                    run::candidate(x.kind.c_str(), rx::to_text(r), x.detail);
                if (o.shard == 0 && samples < 3 && r.po.n >= 3 &&
                    r.meths[0].nd >= 2 && run::g_gate.idx % 7 == 0) {
                    ++samples;
                    run::sample(rx::to_text(r));
                }
            });
    });
}

} // namespace drv

// ---------------------------------------------------------------------------
// C02, "if the handler returns, the program aborts rather than continuing":
// one forked child per error cell; the child's handler returns.
namespace drv {

struct AbortShared {
    volatile int handler_called, after_call, body_ran;
};
inline AbortShared* g_abort_shared;

template<class Pol>
void install_returning_handlers(bool deprecated) {
    using namespace yorel::yomm2;
#ifndef HX_THROW_FACET
    if constexpr (std::is_base_of_v<
                      policy::backward_compatible_error_handler<Pol>, Pol>) {
        if (deprecated) {
            Pol::error = policy::backward_compatible_error_handler<
                Pol>::default_error_handler;
            Pol::call_error = [](const method_call_error&, std::size_t,
                                 type_id*) {
                g_abort_shared->handler_called = 1;
            };
            return;
        }
    }
    Pol::error = [](const error_type&) { g_abort_shared->handler_called = 1; };
#endif
}

inline int abort_main() {
    auto& o = run::g_opts;
    run::declare_counters(
        {"registries", "nontrivial", "updates", "calls", "abort_children",
         "abort_none", "abort_ambig"});
    auto spaces = parse_spaces(o.space);
    bool deprecated = get("handler", "") == "call_error";
    auto* sh = (AbortShared*)mmap(
        nullptr, sizeof(AbortShared), PROT_READ | PROT_WRITE,
        MAP_SHARED | MAP_ANONYMOUS, -1, 0);
    auto one = [&](const rx::Registry& r, std::vector<Viol>& out) {
        hx::Built b;
        hx::build(r, b);
        COUNT("updates", 1);
        if (!b.ok) {
            out.push_back({"update_failed", err_text(b.err)});
            return;
        }
        const rx::Meth& m = r.meths[0];
        rx::for_each_tuple(r.po, m, [&](const int8_t* a) {
            int exp = rx::expected_call(r.po, m, a);
            if (exp >= 0)
                return;
            COUNT("abort_children", 1);
            if (exp == rx::O_NONE)
                COUNT("abort_none", 1);
            else
                COUNT("abort_ambig", 1);
            sh->handler_called = sh->after_call = sh->body_ran = 0;
            fflush(run::g_out);
            pid_t pid = fork();
            if (pid == 0) {
                g_abort_shared = sh;
                install_returning_handlers<hx::P>(deprecated);
                hx::Obj* objs[rx::MAXA];
                for (int k = 0; k < m.arity; ++k)
                    objs[k] = hx::g_objs[a[k]];
                hx::set_dyn(a, m.arity);
                int before = hx::g_bodies_run;
                hx::g_ops[m.shape].call(objs);
                sh->body_ran = hx::g_bodies_run != before;
                sh->after_call = 1;
                _exit(0);
            }
            int st = 0;
            waitpid(pid, &st, 0);
            COUNT("calls", 1);
            bool aborted = WIFSIGNALED(st) && WTERMSIG(st) == SIGABRT;
            if (!aborted || sh->after_call || sh->body_ran ||
                !sh->handler_called)
                out.push_back(
                    {"no_abort_after_handler_returned",
                     "shape=" + std::string(hx::SHAPES[m.shape]) + " args=(" +
                         tuple_text(a, m.arity) + ") expected=" +
                         std::to_string(exp) + " aborted=" +
                         std::to_string(aborted) + " handler_called=" +
                         std::to_string(sh->handler_called) + " continued=" +
                         std::to_string(sh->after_call) + " status=" +
                         std::to_string(st)});
        });
    };
    if (!o.replay.empty()) {
        run::g_sh = new run::Shared();
        run::g_out = stdout;
        rx::Registry r = rx::from_text(o.replay.c_str());
        std::vector<Viol> v;
        one(r, v);
        for (auto& x : v)
            printf("VIOL\t%s\t%s\n", x.kind.c_str(), x.detail.c_str());
        return v.empty() ? 0 : 1;
    }
    return run::run_sharded([&] {
        long samples = 0;
        for (auto& sp : spaces)
            for_each_single_method_registry(sp, [&](const rx::Registry& r) {
                if (!run::g_gate.take(r))
                    return;
                COUNT("registries", 1);
                if (registry_nontrivial(r))
                    COUNT("nontrivial", 1);
                std::vector<Viol> v;
                one(r, v);
                for (auto& x : v)
                    run::candidate(x.kind.c_str(), rx::to_text(r), x.detail);
                if (o.shard == 0 && samples < 2 && r.po.n >= 2) {
                    ++samples;
                    run::sample(rx::to_text(r) + " (one child per error cell)");
                }
            });
    });
}

} // namespace drv
