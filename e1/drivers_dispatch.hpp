// drivers_dispatch.hpp - C01 / C02 / C03 (and the dispatch half of C10):
// every registry of a space -> real update -> every legal tuple through the
// real resolve and the real operator() -> compare with the reference model.
#pragma once
#include "space.hpp"

namespace drv {

struct Viol {
    std::string kind, detail;
};
inline int g_alias_calls = 0; // prj: call with every alias of every argument
// which alias objects of a class may carry: 0 / 1 = only that one (the only id
// a record registered), -1 = both (one record per alias)
inline int8_t g_forced_alias[rx::MAXC] = {};

inline std::string err_text(const std::optional<hx::error_type>& e) {
    using namespace yorel::yomm2;
    if (!e)
        return "none";
    if (auto x = std::get_if<unknown_class_error>(&*e))
        return "unknown_class(" + std::to_string(hx::class_of_id(x->type)) + ")";
    if (auto x = std::get_if<resolution_error>(&*e))
        return "resolution(" + std::to_string((int)x->status) + ")";
    if (std::get_if<hash_search_error>(&*e))
        return "hash_search";
    if (auto x = std::get_if<method_table_error>(&*e))
        return "method_table(" + std::to_string(hx::class_of_id(x->type)) + ")";
    if (std::get_if<static_slot_error>(&*e))
        return "static_slot";
    if (std::get_if<static_stride_error>(&*e))
        return "static_stride";
    return "error";
}

// Applies the oracles selected by `props` (substring match on "C01" ..) to one
// registry. Appends violations. `obs_text` (optional) receives every
// observation for the second oracle.
inline int g_reupdate = 0; // run update again on the same registrations
inline void check_dispatch(
    const rx::Registry& r, const std::string& props, std::vector<Viol>& out,
    std::string* obs_text = nullptr, bool again = false) {
    const bool c01 = props.find("C01") != std::string::npos;
    const bool c02 = props.find("C02") != std::string::npos;
    const bool c03 = props.find("C03") != std::string::npos;
    if (!again)
        g_reupdate = geti("reupdate", 0);

    hx::Built b;
    if (!again) {
        run::note("update");
        hx::build(r, b);
        COUNT("registrations", r.nr + r.nm);
    } else {
        run::note("second update");
        // poison what update must rewrite
        for (int mi = 0; mi < r.nm; ++mi)
            for (int di = 0; di < r.meths[mi].nd; ++di)
                hx::g_defs[r.meths[mi].shape * rx::MAXD + di].next = (void*)0x1;
        hx::do_update(b);
    }
    COUNT("updates", 1);
    if (!b.ok) {
        out.push_back(
            {again ? "second_update_failed" : "update_failed",
             "update reported " + err_text(b.err)});
        return;
    }
    struct Again {
        const rx::Registry& r;
        const std::string& props;
        std::vector<Viol>& out;
        bool go;
        ~Again() {
            if (go) {
                size_t before = out.size();
                check_dispatch(r, props, out, nullptr, true);
                for (size_t i = before; i < out.size(); ++i)
                    out[i].kind = "after_second_update:" + out[i].kind;
            }
        }
    } run_again{r, props, out, g_reupdate && !again};
    unsigned long long digest = 1469598103934665603ull;
    struct AddDigest {
        unsigned long long& d;
        ~AddDigest() {
            COUNT("digest", d & 0xffffffffffffull);
        }
    } add_digest{digest};

    for (int mi = 0; mi < r.nm; ++mi) {
        const rx::Meth& m = r.meths[mi];
        COUNT("registrations", m.nd);
        const std::string_view shape = hx::SHAPES[m.shape];

        // a tuple for which the oracle selects a definition: used to check
        // that dispatch still works after an error was thrown
        int8_t witness[rx::MAXA];
        int witness_exp = rx::O_NONE;
        rx::for_each_tuple(r.po, m, [&](const int8_t* a) {
            if (witness_exp < 0) {
                int e = rx::expected_call(r.po, m, a);
                if (e >= 0) {
                    witness_exp = e;
                    memcpy(witness, a, rx::MAXA);
                }
            }
        });

        run::note("calls");
        rx::for_each_tuple(r.po, m, [&](const int8_t* a) {
          const unsigned nalias = g_alias_calls ? 1u << m.arity : 1u;
          for (unsigned ab = 0; ab < nalias; ++ab) {
            bool legal = true;
            for (int k = 0; k < m.arity; ++k)
                if (g_forced_alias[a[k]] >= 0 &&
                    (int)((ab >> k) & 1) != g_forced_alias[a[k]])
                    legal = false;
            if (g_alias_calls && !legal)
                continue;
            int exp = rx::expected_call(r.po, m, a);
            hx::set_dyn(a, m.arity, (uint8_t)ab);
            hx::Obs ob = hx::observe_call(m, a);
            digest = digest * 1099511628211ull ^
                (unsigned long long)(ob.outcome + 7) ^
                ((unsigned long long)(ob.resolved + 7) << 8);
            COUNT("calls", 2); // resolve + call
            if (exp >= 0)
                COUNT("cells_def", 1);
            else if (exp == rx::O_NONE)
                COUNT("cells_none", 1);
            else
                COUNT("cells_ambig", 1);
            if (obs_text)
                *obs_text += "m" + std::to_string(mi) + "(" +
                    tuple_text(a, m.arity) + ")=" + std::to_string(ob.outcome) +
                    "/" + std::to_string(ob.resolved) + " ";
            auto where = [&] {
                return "m=" + std::to_string(mi) + " shape=" +
                    std::string(shape) + " args=(" + tuple_text(a, m.arity) +
                    ") expected=" + std::to_string(exp) +
                    " resolved=" + std::to_string(ob.resolved) +
                    " ran=" + std::to_string(ob.outcome) +
                    (ob.other ? " error=" + err_text(ob.other) : "");
            };
            if (c01) {
                if (exp >= 0) {
                    if (ob.resolved != exp || ob.outcome != exp)
                        out.push_back({"wrong_definition", where()});
                    else {
                        // arguments arrive at the body unchanged
                        int vk = 0;
                        bool ok = ob.log.nargs == (int)shape.size();
                        for (int j = 0; ok && j < (int)shape.size(); ++j) {
                            std::uintptr_t want = shape[j] == 'N'
                                ? (std::uintptr_t)(100 + j)
                                : (std::uintptr_t)hx::g_objs[a[vk++]];
                            if (ob.log.arg[j] != want)
                                ok = false;
                        }
                        if (!ok)
                            out.push_back({"wrong_arguments", where()});
                    }
                } else if (ob.body_ran || ob.outcome >= 0 || ob.resolved >= 0) {
                    out.push_back({"definition_ran_for_error_cell", where()});
                }
            }
            if (c02 && exp < 0) {
                COUNT("error_cells_checked", 1);
                std::string bad;
                if (ob.body_ran)
                    bad += "body_ran ";
                if (!ob.threw)
                    bad += "no_exception ";
                if (ob.resolved != exp)
                    bad += "resolve_pointer ";
                if (!ob.rerr)
                    bad += "no_resolution_error ";
                else {
                    if (ob.outcome != exp)
                        bad += "status ";
                    if ((int)ob.rerr->arity != m.arity)
                        bad += "arity=" + std::to_string(ob.rerr->arity) + " ";
                    bool ids = true;
                    for (int k = 0; k < m.arity; ++k)
                        if (ob.rerr->types[k] != hx::g_objs[a[k]]->dyn)
                            ids = false;
                    if (!ids) {
                        bad += "types=[";
                        for (int k = 0; k < m.arity; ++k)
                            bad += std::to_string(hx::class_of_id(
                                       ob.rerr->types[k])) +
                                (k + 1 < m.arity ? "," : "");
                        bad += "] ";
                    }
                }
                if (!bad.empty())
                    out.push_back({"bad_error_report", where() + " wrong: " + bad});
                // a later call still dispatches correctly
                if (witness_exp >= 0) {
                    hx::set_dyn(witness, m.arity);
                    hx::Obs w = hx::observe_call(m, witness, false);
                    COUNT("calls", 1);
                    if (w.outcome != witness_exp)
                        out.push_back(
                            {"call_after_error",
                             where() + " then (" + tuple_text(witness, m.arity) +
                                 ") ran " + std::to_string(w.outcome) +
                                 " expected " + std::to_string(witness_exp)});
                }
            }
          }
        });

        if (c03) {
            run::note("next");
            for (int di = 0; di < m.nd; ++di) {
                int exp = rx::expected_next(r.po, m, di);
                int got = hx::observed_next(m, di);
                COUNT("nexts", 1);
                if (exp >= 0)
                    COUNT("next_def", 1);
                else if (exp == rx::O_NONE)
                    COUNT("next_none", 1);
                else
                    COUNT("next_ambig", 1);
                digest = digest * 1099511628211ull ^ (unsigned long long)(got + 7);
                if (obs_text)
                    *obs_text += "n" + std::to_string(mi) + "." +
                        std::to_string(di) + "=" + std::to_string(got) + " ";
                if (exp != got)
                    out.push_back(
                        {"wrong_next",
                         "m=" + std::to_string(mi) + " def=" +
                             std::to_string(di) + " expected=" +
                             std::to_string(exp) + " got=" + std::to_string(got)});
            }
        }
    }
}

inline void declare_dispatch_counters() {
    run::declare_counters(
        {"registries", "nontrivial", "updates", "registrations", "calls",
         "cells_def", "cells_none", "cells_ambig", "error_cells_checked",
         "nexts", "next_def", "next_none", "next_ambig", "mi_registries",
         "digest", "alias_assignments"});
}

inline int dispatch_main() {
    auto& o = run::g_opts;
    declare_dispatch_counters();
    if (get("handler", "") == "call_error_throw" &&
        !hx::install_deprecated_throwing_handler<hx::P>()) {
        fprintf(stderr, "this policy has no deprecated call_error handler\n");
        return 2;
    }
    if (!o.replay.empty()) {
        run::g_sh = new run::Shared();
        run::g_out = stdout;
        rx::Registry r = rx::from_text(o.replay.c_str());
        std::vector<Viol> v;
        std::string obs;
        check_dispatch(r, o.props, v, &obs);
        printf("OBS\t%s\n", obs.c_str());
        for (auto& x : v)
            printf("VIOL\t%s\t%s\n", x.kind.c_str(), x.detail.c_str());
        return v.empty() ? 0 : 1;
    }
    auto spaces = parse_spaces(o.space);
    return run::run_sharded([&] {
        long samples = 0;
        for (auto& sp : spaces)
            for_each_single_method_registry(sp, [&](const rx::Registry& r) {
                if (!run::g_gate.take(r))
                    return;
                COUNT("registries", 1);
                if (registry_nontrivial(r))
                    COUNT("nontrivial", 1);
                if (rx::has_mi(r.po))
                    COUNT("mi_registries", 1);
                std::vector<Viol> v;
                std::string obs;
                bool dumpit = run::g_gate.want_dump();
                check_dispatch(r, o.props, v, dumpit ? &obs : nullptr);
                if (dumpit)
                    run::dump(rx::to_text(r), obs);
                for (auto& x : v)
                    run::candidate(x.kind.c_str(), rx::to_text(r), x.detail);
                if (o.shard == 0 && samples < 3 && r.po.n >= 3 &&
                    r.meths[0].nd >= 2 && run::g_gate.idx % 7 == 0) {
                    ++samples;
                    run::sample(rx::to_text(r));
                }
            });
    });
}

} // namespace drv

// ---------------------------------------------------------------------------
// C02, "if the handler returns, the program aborts rather than continuing":
// one forked child per error cell; the child's handler returns.
namespace drv {

struct AbortShared {
    volatile int handler_called, after_call, body_ran;
};
inline AbortShared* g_abort_shared;

template<class Pol>
void install_returning_handlers(bool deprecated) {
    using namespace yorel::yomm2;
#ifndef HX_THROW_FACET
    if constexpr (std::is_base_of_v<
                      policy::backward_compatible_error_handler<Pol>, Pol>) {
        if (deprecated) {
            Pol::error = policy::backward_compatible_error_handler<
                Pol>::default_error_handler;
            Pol::call_error = [](const method_call_error&, std::size_t,
                                 type_id*) {
                g_abort_shared->handler_called = 1;
            };
            return;
        }
    }
    Pol::error = [](const error_type&) { g_abort_shared->handler_called = 1; };
#endif
}

inline int abort_main() {
    auto& o = run::g_opts;
    run::declare_counters(
        {"registries", "nontrivial", "updates", "calls", "abort_children",
         "abort_none", "abort_ambig"});
    auto spaces = parse_spaces(o.space);
    bool deprecated = get("handler", "") == "call_error";
    auto* sh = (AbortShared*)mmap(
        nullptr, sizeof(AbortShared), PROT_READ | PROT_WRITE,
        MAP_SHARED | MAP_ANONYMOUS, -1, 0);
    auto one = [&](const rx::Registry& r, std::vector<Viol>& out) {
        hx::Built b;
        hx::build(r, b);
        COUNT("updates", 1);
        if (!b.ok) {
            out.push_back({"update_failed", err_text(b.err)});
            return;
        }
        const rx::Meth& m = r.meths[0];
        rx::for_each_tuple(r.po, m, [&](const int8_t* a) {
            int exp = rx::expected_call(r.po, m, a);
            if (exp >= 0)
                return;
            COUNT("abort_children", 1);
            if (exp == rx::O_NONE)
                COUNT("abort_none", 1);
            else
                COUNT("abort_ambig", 1);
            sh->handler_called = sh->after_call = sh->body_ran = 0;
            fflush(run::g_out);
            pid_t pid = fork();
            if (pid == 0) {
                g_abort_shared = sh;
                install_returning_handlers<hx::P>(deprecated);
                hx::Obj* objs[rx::MAXA];
                for (int k = 0; k < m.arity; ++k)
                    objs[k] = hx::g_objs[a[k]];
                hx::set_dyn(a, m.arity);
                int before = hx::g_bodies_run;
                hx::g_ops[m.shape].call(objs);
                sh->body_ran = hx::g_bodies_run != before;
                sh->after_call = 1;
                _exit(0);
            }
            int st = 0;
            waitpid(pid, &st, 0);
            COUNT("calls", 1);
            bool aborted = WIFSIGNALED(st) && WTERMSIG(st) == SIGABRT;
            if (!aborted || sh->after_call || sh->body_ran ||
                !sh->handler_called)
                out.push_back(
                    {"no_abort_after_handler_returned",
                     "shape=" + std::string(hx::SHAPES[m.shape]) + " args=(" +
                         tuple_text(a, m.arity) + ") expected=" +
                         std::to_string(exp) + " aborted=" +
                         std::to_string(aborted) + " handler_called=" +
                         std::to_string(sh->handler_called) + " continued=" +
                         std::to_string(sh->after_call) + " status=" +
                         std::to_string(st)});
        });
    };
    if (!o.replay.empty()) {
        run::g_sh = new run::Shared();
        run::g_out = stdout;
        rx::Registry r = rx::from_text(o.replay.c_str());
        std::vector<Viol> v;
        one(r, v);
        for (auto& x : v)
            printf("VIOL\t%s\t%s\n", x.kind.c_str(), x.detail.c_str());
        return v.empty() ? 0 : 1;
    }
    return run::run_sharded([&] {
        long samples = 0;
        for (auto& sp : spaces)
            for_each_single_method_registry(sp, [&](const rx::Registry& r) {
                if (!run::g_gate.take(r))
                    return;
                COUNT("registries", 1);
                if (registry_nontrivial(r))
                    COUNT("nontrivial", 1);
                std::vector<Viol> v;
                one(r, v);
                for (auto& x : v)
                    run::candidate(x.kind.c_str(), rx::to_text(r), x.detail);
                if (o.shard == 0 && samples < 2 && r.po.n >= 2) {
                    ++samples;
                    run::sample(rx::to_text(r) + " (one child per error cell)");
                }
            });
    });
}

} // namespace drv

// ---------------------------------------------------------------------------
// C10: alias enumeration (flavours with several ids per class)
namespace drv {

// every use of a class id in the registry takes either alias: all 2^uses
// assignments when uses <= limit, else four patterns
template<class F>
void for_each_alias_assignment(
    rx::Registry& r, int limit, bool vary_records, F&& f) {
    struct Use {
        int kind, i, j;
    };
    std::vector<Use> uses;
    for (int i = 0; i < r.nr; ++i) {
        if (vary_records)
            uses.push_back({0, i, 0});
        for (int b = 0; b < r.recs[i].nb; ++b)
            uses.push_back({1, i, b});
    }
    for (int mi = 0; mi < r.nm; ++mi) {
        for (int k = 0; k < r.meths[mi].arity; ++k)
            uses.push_back({2, mi, k});
        for (int di = 0; di < r.meths[mi].nd; ++di)
            for (int k = 0; k < r.meths[mi].arity; ++k)
                uses.push_back({3, mi, di * 8 + k});
    }
    auto apply = [&](auto bit) {
        for (int i = 0; i < r.nr; ++i) {
            if (vary_records)
                r.recs[i].alias = 0;
            r.recs[i].base_alias = 0;
        }
        for (int mi = 0; mi < r.nm; ++mi) {
            r.meths[mi].vp_alias = 0;
            memset(r.meths[mi].def_alias, 0, sizeof r.meths[mi].def_alias);
        }
        for (size_t u = 0; u < uses.size(); ++u) {
            if (!bit(u))
                continue;
            auto& x = uses[u];
            if (x.kind == 0)
                r.recs[x.i].alias = 1;
            else if (x.kind == 1)
                r.recs[x.i].base_alias |= 1u << x.j;
            else if (x.kind == 2)
                r.meths[x.i].vp_alias |= 1u << x.j;
            else
                r.meths[x.i].def_alias[x.j / 8] |= 1u << (x.j % 8);
        }
        f();
    };
    if ((int)uses.size() <= limit) {
        for (unsigned long code = 0; code < (1ul << uses.size()); ++code)
            apply([&](size_t u) { return (code >> u) & 1; });
    } else {
        apply([](size_t) { return 0; });
        apply([](size_t) { return 1; });
        apply([](size_t u) { return u & 1; });
        apply([](size_t u) { return !(u & 1); });
        apply([](size_t u) { return (u / 2) & 1; });
        apply([](size_t u) { return (u % 3) == 0; });
    }
}

inline int flavour_main() {
    auto& o = run::g_opts;
    declare_dispatch_counters();
    g_alias_calls = 1;
    int limit = geti("limit", 10);
    if (!o.replay.empty()) {
        run::g_sh = new run::Shared();
        run::g_out = stdout;
        rx::Registry r = rx::from_text(o.replay.c_str());
        std::vector<Viol> v;
        check_dispatch(r, o.props, v);
        for (auto& x : v)
            printf("VIOL\t%s\t%s\n", x.kind.c_str(), x.detail.c_str());
        return v.empty() ? 0 : 1;
    }
    auto spaces = parse_spaces(o.space);
    return run::run_sharded([&] {
        long samples = 0;
        for (auto& sp : spaces)
            for_each_single_method_registry(sp, [&](const rx::Registry& r0) {
              for (int doubled = 0; doubled <= 3; ++doubled) {
                rx::Registry r = r0;
                if (doubled) {
                    // one record per id of each class: both ids are registered;
                    // doubled == 2: three records per class, ids interleaved
                    // (id0, id1, id0) as when several libraries register it
                    // doubled == 3: two records, the larger id registered first
                    int per = doubled == 3 ? 2 : doubled + 1;
                    if (per * r0.nr > rx::MAXR)
                        continue;
                    r.nr = 0;
                    for (int i = 0; i < r0.nr; ++i)
                        for (int k = 0; k < per; ++k) {
                            r.recs[r.nr] = r0.recs[i];
                            r.recs[r.nr].alias = doubled == 3 ? 1 - (k & 1) : k & 1;
                            ++r.nr;
                        }
                }
                bool nt = registry_nontrivial(r), mi = rx::has_mi(r.po);
                for_each_alias_assignment(r, limit, !doubled, [&] {
                    for (int c = 0; c < rx::MAXC; ++c)
                        g_forced_alias[c] = doubled ? -1 : 0;
                    if (!doubled)
                        for (int i = 0; i < r.nr; ++i)
                            g_forced_alias[r.recs[i].cls] = r.recs[i].alias;
                    if (!run::g_gate.take(r))
                        return;
                    COUNT("registries", 1);
                    COUNT("alias_assignments", 1);
                    if (nt)
                        COUNT("nontrivial", 1);
                    if (mi)
                        COUNT("mi_registries", 1);
                    std::vector<Viol> v;
                    check_dispatch(r, o.props, v);
                    for (auto& x : v)
                        run::candidate(x.kind.c_str(), rx::to_text(r), x.detail);
                    if (o.shard == 0 && samples < 3 && r.po.n >= 2 &&
                        r.meths[0].nd >= 1 && run::g_gate.idx % 37 == 5) {
                        ++samples;
                        run::sample(rx::to_text(r));
                    }
                });
              }
            });
    });
}

} // namespace drv
