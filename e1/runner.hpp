// runner.hpp - sharding, crash containment, candidate / dump / summary output.
#pragma once
#include "regx.hpp"

#include <map>
#include <string>
#include <sys/mman.h>
#include <sys/personality.h>
#include <sys/wait.h>
#include <unistd.h>

namespace run {

struct Opts {
    std::string driver;
    std::string props;
    std::string space;
    std::string out;
    std::string replay;
    std::string extra;
    int shard = 0, nshards = 1;
    long dump_mod = 0; // dump every dump_mod-th case for the second oracle
    long max_cands = 100;
    long only_until = -1; // prefix replay: stop after this case index
    double deadline_s = 0; // 0 = none
    bool asan_child = false;
    std::map<std::string, std::string> kv;
};

constexpr int NCOUNT = 48;
struct Shared {
    volatile long progress;     // case index in progress (-1: none)
    volatile long next_start;   // where a restarted child resumes
    volatile int done;          // child finished the shard
    volatile int deadline_hit;
    rx::Registry current;       // the registry in progress
    char current_note[256];
    unsigned long long counters[NCOUNT];
    long ncand_total;
};

inline Shared* g_sh;
inline FILE* g_out;
inline Opts g_opts;
inline const char* g_counter_names[NCOUNT];
inline int g_ncounters = 0;
inline double g_t0;

inline double now() {
    timespec ts;
    clock_gettime(CLOCK_MONOTONIC, &ts);
    return ts.tv_sec + ts.tv_nsec * 1e-9;
}

inline bool g_frozen = false;
inline int counter(const char* name) {
    for (int i = 0; i < g_ncounters; ++i)
        if (!strcmp(g_counter_names[i], name))
            return i;
    if (g_frozen) {
        fprintf(stderr, "counter %s not declared before fork\n", name);
        _exit(2);
    }
    if (g_ncounters == NCOUNT) {
        fprintf(stderr, "too many counters\n");
        exit(2);
    }
    g_counter_names[g_ncounters] = name;
    return g_ncounters++;
}
#define COUNT(name, n)                                                         \
    do {                                                                       \
        static int c_ = run::counter(name);                                    \
        run::g_sh->counters[c_] += (n);                                        \
    } while (0)

inline void candidate(
    const char* kind, const std::string& reg, const std::string& detail_in) {
    std::string detail = detail_in;
    for (auto& ch : detail)
        if (ch == '\n' || ch == '\t' || ch == '\r')
            ch = ' ';
    long n = ++g_sh->ncand_total;
    if (n <= g_opts.max_cands) {
        fprintf(
            g_out, "CAND\t%s\t%s\t%s\t%ld\n", kind, reg.c_str(), detail.c_str(),
            (long)g_sh->progress);
        fflush(g_out);
    }
}
inline void dump(const std::string& reg, const std::string& obs) {
    fprintf(g_out, "DUMP\t%s\t%s\n", reg.c_str(), obs.c_str());
}
inline void sample(const std::string& text) {
    fprintf(g_out, "SAMPLE\t%s\n", text.c_str());
}

// case gate: returns true when this process must run case idx
struct Gate {
    long idx = -1;
    long start = 0;
    long taken = 0;
    bool stop = false;
    bool take(const rx::Registry& r) {
        ++idx;
        if (stop)
            return false;
        if (g_opts.only_until >= 0 && idx > g_opts.only_until) {
            stop = true;
            return false;
        }
        if (idx % g_opts.nshards != g_opts.shard)
            return false;
        if (idx < start)
            return false;
        // counted per process: idx & mask would only ever fire in shard 0
        if (g_opts.deadline_s > 0 && (++taken & 0xf) == 0 &&
            now() - g_t0 > g_opts.deadline_s) {
            g_sh->deadline_hit = 1;
            stop = true;
            return false;
        }
        g_sh->current = r;
        g_sh->current_note[0] = 0;
        g_sh->progress = idx;
        return true;
    }
    bool want_dump() const {
        return g_opts.dump_mod > 0 &&
            (idx / g_opts.nshards) % g_opts.dump_mod == 0;
    }
};
inline Gate g_gate;

inline void note(const char* s) {
    strncpy(g_sh->current_note, s, sizeof g_sh->current_note - 1);
}

// run `body` (which enumerates the space and runs the shard's cases) in forked
// children; a child that dies marks its current case as a crash candidate and
// the next child resumes after it.
template<class F>
int run_sharded(F&& body) {
    g_sh = (Shared*)mmap(
        nullptr, sizeof(Shared), PROT_READ | PROT_WRITE,
        MAP_SHARED | MAP_ANONYMOUS, -1, 0);
    g_sh->progress = -1;
    g_out = g_opts.out.empty() ? stdout : fopen(g_opts.out.c_str(), "w");
    if (!g_out) {
        perror("open out");
        return 2;
    }
    g_t0 = now();
    long crashes = 0;
    while (!g_sh->done) {
        fflush(g_out);
        pid_t pid = fork();
        if (pid == 0) {
            g_frozen = true;
            g_gate = Gate();
            g_gate.start = g_sh->next_start;
            body();
            g_sh->progress = -1;
            g_sh->done = 1;
            fflush(g_out);
            _exit(0);
        }
        int st = 0;
        waitpid(pid, &st, 0);
        if (g_sh->done)
            break;
        if (WIFEXITED(st) && WEXITSTATUS(st) == 2) {
            fprintf(stderr, "harness error in child (exit 2)\n");
            return 2;
        }
        // crashed (or exited abnormally) while running case `progress`
        long at = g_sh->progress;
        ++crashes;
        char detail[400];
        snprintf(
            detail, sizeof detail, "child died: %s %d at case %ld; note=%s",
            WIFSIGNALED(st) ? "signal" : "exit",
            WIFSIGNALED(st) ? WTERMSIG(st) : WEXITSTATUS(st), at,
            g_sh->current_note);
        if (at < 0) {
            fprintf(stderr, "harness died outside a case: %s\n", detail);
            return 2;
        }
        candidate("crash", rx::to_text(g_sh->current), detail);
        g_sh->next_start = at + 1;
        // each restart re-enumerates the space up to the case after the
        // crash: a tree on which hundreds of cases crash is already decided
        if (crashes > 300) {
            fprintf(stderr, "too many crashes\n");
            g_sh->deadline_hit = 1; // the rest of the shard is not explored
            break;
        }
    }
    fprintf(g_out, "SUMMARY\t{");
    for (int i = 0; i < NCOUNT; ++i)
        if (g_counter_names[i])
            fprintf(
                g_out, "%s\"%s\": %llu", i ? ", " : "", g_counter_names[i],
                g_sh->counters[i]);
    fprintf(
        g_out,
        "%s\"candidates\": %ld, \"crashes\": %ld, \"deadline_hit\": %d, "
        "\"wall_s\": %.3f}\n",
        g_ncounters ? ", " : "", g_sh->ncand_total, crashes,
        (int)g_sh->deadline_hit, now() - g_t0);
    fflush(g_out);
    return 0;
}

// counters must be registered (named) in the parent before forking so that
// indexes agree between successive children and the parent
inline void declare_counters(std::initializer_list<const char*> names) {
    for (auto n : names)
        counter(n);
}

inline void parse_kv(const std::string& s, std::map<std::string, std::string>& kv) {
    size_t i = 0;
    while (i < s.size()) {
        size_t e = s.find(',', i);
        if (e == std::string::npos)
            e = s.size();
        std::string item = s.substr(i, e - i);
        size_t eq = item.find('=');
        if (eq != std::string::npos)
            kv[item.substr(0, eq)] = item.substr(eq + 1);
        i = e + 1;
    }
}

inline Opts parse_args(int argc, char** argv) {
    Opts o;
    for (int i = 1; i < argc; ++i) {
        std::string a = argv[i];
        auto val = [&]() -> std::string {
            if (i + 1 >= argc) {
                fprintf(stderr, "missing value for %s\n", a.c_str());
                exit(2);
            }
            return argv[++i];
        };
        if (a == "--driver")
            o.driver = val();
        else if (a == "--props")
            o.props = val();
        else if (a == "--space")
            o.space = val();
        else if (a == "--out")
            o.out = val();
        else if (a == "--replay")
            o.replay = val();
        else if (a == "--extra")
            o.extra = val();
        else if (a == "--shard") {
            std::string v = val();
            sscanf(v.c_str(), "%d/%d", &o.shard, &o.nshards);
        } else if (a == "--dump-mod")
            o.dump_mod = atol(val().c_str());
        else if (a == "--max-cands")
            o.max_cands = atol(val().c_str());
        else if (a == "--deadline")
            o.deadline_s = atof(val().c_str());
        else if (a == "--only-until")
            o.only_until = atol(val().c_str());
        else {
            fprintf(stderr, "unknown arg %s\n", a.c_str());
            exit(2);
        }
    }
    return o;
}

// re-exec once with ASLR disabled so that heap / typeinfo addresses (and with
// them unordered_set iteration orders and the hash search) are reproducible
inline void no_aslr(int argc, char** argv) {
    if (getenv("HX_NOASLR_DONE"))
        return;
    setenv("HX_NOASLR_DONE", "1", 1);
    unsetenv("YOMM2_TRACE");
    int pers = personality(0xffffffff);
    if (pers != -1 && personality(pers | ADDR_NO_RANDOMIZE) != -1) {
        execv("/proc/self/exe", argv);
    }
    // could not: carry on (results are still deterministic per process)
}

} // namespace run
