// main.cpp - drivers of engine E1 (regx). See DESIGN.md 2.1 and section 3.
#include "bind.hpp"
#include "runner.hpp"

#include "drivers_dispatch.hpp"
#ifndef HX_ONLY_DISPATCH
#include "drivers_slots.hpp"
#include "drivers_perm.hpp"
#include "drivers_report.hpp"
#include "drivers_unknown.hpp"
#include "drivers_gen.hpp"
#include "drivers_history.hpp"
#endif

int main(int argc, char** argv) {
    run::no_aslr(argc, argv);
    run::g_opts = run::parse_args(argc, argv);
    auto& o = run::g_opts;
    run::parse_kv(o.space, o.kv);
    run::parse_kv(o.extra, o.kv);
    hx::init_bind();
    hx::g_fresh_storage = o.kv.count("fresh") && atoi(o.kv.at("fresh").c_str());
    hx::install_throwing_handler();

    if (o.driver == "info") {
        printf(
            "{\"tag\": \"%s\", \"nshapes\": %d, \"deferred\": %d, \"hash\": %d, "
            "\"checks\": %d, \"indirect\": %d}\n",
            HX_TAG, hx::NUSED, (int)hx::is_deferred, (int)hx::has_hash,
            (int)hx::has_checks, (int)hx::is_indirect);
        _exit(0);
    }

    int rc = 2;
    if (o.driver == "dispatch")
        rc = drv::dispatch_main();
    else if (o.driver == "abort")
        rc = drv::abort_main();
    else if (o.driver == "flavour")
        rc = drv::flavour_main();
#ifndef HX_ONLY_DISPATCH
    else if (o.driver == "slots")
        rc = drv::slots_main();
    else if (o.driver == "perm")
        rc = drv::perm_main();
    else if (o.driver == "pres")
        rc = drv::pres_main();
    else if (o.driver == "report")
        rc = drv::report_main();
    else if (o.driver == "unknown")
        rc = drv::unknown_main();
    else if (o.driver == "offsets")
        rc = drv::offsets_main();
    else if (o.driver == "encode")
        rc = drv::encode_main();
    else if (o.driver == "history")
        rc = drv::history_main();
#endif
    else
        fprintf(stderr, "unknown driver '%s'\n", o.driver.c_str());
    fflush(stdout);
    // never run static destructors: ~method would unlink methods that the
    // harness already took out of the catalog
    _exit(rc);
}
