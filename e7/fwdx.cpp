// fwdx.cpp - engine E7 (C19): exhaustive enumeration of name sets through the
// real generator::write_forward_declarations, and of type descriptions through
// the real generator::add_forward_declaration(string_view).
#include <yorel/yomm2/generator.hpp>

#include <cstdio>
#include <functional>
#include <map>
#include <set>
#include <sstream>
#include <string>
#include <vector>
#include <unistd.h>

using namespace yorel::yomm2;

static long g_cases = 0, g_nontrivial = 0, g_transitions = 0;
static std::vector<std::string> g_cands, g_samples, g_compile;

// ---------------------------------------------------------------------------
// oracle: recursive-descent parser of  ( namespace id { ... } | class id ; )*

struct Parsed {
    bool ok = true;
    std::string why;
    std::multiset<std::string> classes;
};

static Parsed parse_decls(const std::string& text) {
    Parsed p;
    std::vector<std::string> tok;
    {
        std::string cur;
        for (char c : text) {
            if (isalnum((unsigned char)c) || c == '_') {
                cur += c;
            } else {
                if (!cur.empty())
                    tok.push_back(cur), cur.clear();
                if (c == '{' || c == '}' || c == ';')
                    tok.push_back(std::string(1, c));
                else if (c == ':') {
                    // only as part of "::" inside a nested namespace name
                    if (!tok.empty() && tok.back() == ":")
                        tok.back() = "::";
                    else
                        tok.push_back(":");
                } else if (!isspace((unsigned char)c)) {
                    p.ok = false;
                    p.why = std::string("unexpected character '") + c + "'";
                    return p;
                }
            }
        }
        if (!cur.empty())
            tok.push_back(cur);
    }
    std::vector<std::string> scope;
    std::vector<int> opened; // scopes opened by each '{' (C++17 namespace a::b {)
    size_t i = 0;
    auto ident = [](const std::string& s) {
        return !s.empty() && (isalpha((unsigned char)s[0]) || s[0] == '_') &&
            s != "namespace" && s != "class" && s != "struct";
    };
    while (i < tok.size()) {
        if (tok[i] == "namespace") {
            size_t j = i + 1;
            int n = 0;
            while (j < tok.size() && ident(tok[j])) {
                scope.push_back(tok[j]);
                ++n;
                ++j;
                if (j < tok.size() && tok[j] == "::")
                    ++j;
                else
                    break;
            }
            if (n == 0 || j >= tok.size() || tok[j] != "{") {
                p.ok = false;
                p.why = "malformed namespace";
                return p;
            }
            opened.push_back(n);
            i = j + 1;
        } else if (tok[i] == "class" || tok[i] == "struct") {
            if (i + 2 >= tok.size() || !ident(tok[i + 1]) || tok[i + 2] != ";") {
                p.ok = false;
                p.why = "malformed class declaration";
                return p;
            }
            std::string q;
            for (auto& s : scope)
                q += s + "::";
            p.classes.insert(q + tok[i + 1]);
            i += 3;
        } else if (tok[i] == "}") {
            if (opened.empty()) {
                p.ok = false;
                p.why = "unbalanced '}'";
                return p;
            }
            for (int k = 0; k < opened.back(); ++k)
                scope.pop_back();
            opened.pop_back();
            ++i;
        } else {
            p.ok = false;
            p.why = "unexpected token " + tok[i];
            return p;
        }
    }
    if (!scope.empty()) {
        p.ok = false;
        p.why = "unclosed namespace " + scope.back();
    }
    return p;
}

static std::string join(const std::multiset<std::string>& s) {
    std::string r = "{";
    for (auto& x : s)
        r += (r.size() > 1 ? ", " : "") + x;
    return r + "}";
}
static std::string oneline(std::string s) {
    for (auto& c : s)
        if (c == '\n')
            c = ' ';
    return s;
}

// one case: feed `inputs` (each a name or a type description) to a fresh
// generator, write, parse, compare with `expected`
static bool run_case(
    const std::string& kind, const std::vector<std::string>& inputs,
    const std::set<std::string>& expected, std::string* out_text = nullptr) {
    ++g_cases;
    generator g;
    for (auto& in : inputs) {
        g.add_forward_declaration(std::string_view(in));
        ++g_transitions;
    }
    std::ostringstream os;
    g.write_forward_declarations(os);
    ++g_transitions;
    std::string text = os.str();
    if (out_text)
        *out_text = text;
    Parsed p = parse_decls(text);
    std::multiset<std::string> want(expected.begin(), expected.end());
    std::string desc;
    for (auto& in : inputs)
        desc += (desc.empty() ? "" : " ;; ") + in;
    if (!p.ok) {
        if (g_cands.size() < 60)
            g_cands.push_back(kind + "|" + desc + "\tnot well formed: " + p.why +
                              " :: " + oneline(text));
        return false;
    }
    if (p.classes != want) {
        if (g_cands.size() < 60)
            g_cands.push_back(kind + "|" + desc + "\tdeclares " + join(p.classes) +
                              " expected " + join(want) + " :: " + oneline(text));
        return false;
    }
    return true;
}

// ---------------------------------------------------------------------------
// writer: all sets of <= maxset names over qualified names of depth <= maxdepth

static std::vector<std::string> qualified_names(
    const std::vector<std::string>& ids, int maxdepth) {
    std::vector<std::string> out;
    std::function<void(std::string, int)> rec = [&](std::string prefix, int depth) {
        for (auto& id : ids) {
            out.push_back(prefix + id);
            if (depth < maxdepth)
                rec(prefix + id + "::", depth + 1);
        }
    };
    rec("", 0);
    return out;
}

// a set is declarable iff no name is used both as a class and as a namespace
static bool declarable(const std::vector<std::string>& set) {
    std::set<std::string> classes(set.begin(), set.end()), spaces;
    for (auto& n : set) {
        size_t pos = 0;
        while ((pos = n.find("::", pos)) != std::string::npos) {
            spaces.insert(n.substr(0, pos));
            pos += 2;
        }
    }
    for (auto& c : classes)
        if (spaces.count(c))
            return false;
    return true;
}

static void writer_space(
    const std::vector<std::string>& ids, int maxdepth, int maxset, int shard,
    int nshards) {
    auto names = qualified_names(ids, maxdepth);
    std::vector<std::string> cur;
    long idx = 0;
    std::function<void(size_t)> rec = [&](size_t from) {
        if (!cur.empty() && declarable(cur)) {
            if (idx++ % nshards == shard) {
                std::set<std::string> exp(cur.begin(), cur.end());
                std::string text;
                bool nested = false, shared = false;
                for (auto& n : cur)
                    if (n.find("::") != std::string::npos)
                        nested = true;
                for (size_t i = 0; i + 1 < cur.size(); ++i)
                    if (cur[i][0] == cur[i + 1][0])
                        shared = true;
                if (nested && shared)
                    ++g_nontrivial;
                run_case("W", cur, exp, &text);
                if (shard == 0 && (idx % 5003 == 1) && g_samples.size() < 6)
                    g_samples.push_back(
                        "names " + join(std::multiset<std::string>(cur.begin(), cur.end())) +
                        " -> " + oneline(text));
                if (shard == 0 && cur.size() >= 3 && nested && (idx % 1009 == 0) &&
                    g_compile.size() < 120)
                    g_compile.push_back(text);
            }
        }
        if ((int)cur.size() == maxset)
            return;
        for (size_t i = from; i < names.size(); ++i) {
            cur.push_back(names[i]);
            rec(i + 1);
            cur.pop_back();
        }
    };
    rec(0);
}

// ---------------------------------------------------------------------------
// extractor: every derivation of depth <= D of
//   T ::= class-name | fundamental | T* | T& | T const | T const& | T volatile
//       | tmpl<T> | ns::tmpl<T, T> | std::x<T> | yorel::yomm2::virtual_<T>
//       | T (T, T) | T (*)(T) | tmpl<T, literal> | T [n]
// spelled the way boost::core::demangle spells types.

struct Ty {
    std::string text;
    std::set<std::string> classes;
};

static std::vector<Ty> leaves() {
    std::vector<Ty> v;
    for (auto n : {"Animal", "ns::Dog", "ns::in::Cat", "other::Animal",
                   // only names that START with std:: or yorel:: are skipped
                   "mystd::Widget", "app::std::Config", "notyorel::Thing", "stdx::Y"})
        v.push_back({n, {n}});
    for (auto f : {"void", "int", "unsigned long", "char", "double", "bool",
                   "long long", "wchar_t", "signed char", "char16_t"})
        v.push_back({f, {}});
    return v;
}

static std::vector<Ty> derive(const std::vector<Ty>& from, bool full) {
    std::vector<Ty> out;
    for (auto& t : from) {
        out.push_back({t.text + "*", t.classes});
        out.push_back({t.text + "&", t.classes});
        out.push_back({t.text + " const", t.classes});
        out.push_back({t.text + " const&", t.classes});
        out.push_back({t.text + " volatile*", t.classes});
        out.push_back({"tmpl<" + t.text + ">", t.classes});
        out.push_back({"std::shared_ptr<" + t.text + ">", t.classes});
        out.push_back({"yorel::yomm2::virtual_<" + t.text + "&>", t.classes});
        out.push_back({"void (*)(" + t.text + ")", t.classes});
        // non-type template arguments and array bounds, as the demangler spells them
        out.push_back({"flag<" + t.text + ", true>", t.classes});
        out.push_back({"flag<false, " + t.text + ">", t.classes});
        out.push_back({"buf<" + t.text + ", 2ul>", t.classes});
        out.push_back({"ch<" + t.text + ", (char)65, -1, 10l>", t.classes});
        out.push_back({t.text + " [3]", t.classes});
        // the extractor allows blanks between a template name and its '<'
        out.push_back({"tmpl <" + t.text + ">", t.classes});
        out.push_back({"ns::tmpl  <" + t.text + "> const&", t.classes});
    }
    if (full)
        for (size_t i = 0; i < from.size(); ++i)
            for (size_t j = 0; j < from.size(); ++j) {
                auto c = from[i].classes;
                c.insert(from[j].classes.begin(), from[j].classes.end());
                out.push_back({"ns::tmpl<" + from[i].text + ", " + from[j].text + ">", c});
                out.push_back({"int (" + from[i].text + ", " + from[j].text + ")", c});
            }
    return out;
}

static void extractor_space(int depth, int shard, int nshards) {
    auto level = leaves();
    long idx = 0;
    std::vector<Ty> all = level;
    for (int dpt = 1; dpt <= depth; ++dpt) {
        // pairs only over the leaves + first level to keep the product finite
        level = derive(level, dpt <= 2 && level.size() <= 200);
        all.insert(all.end(), level.begin(), level.end());
        if (all.size() > 4000000)
            break;
    }
    for (auto& t : all) {
        if (idx++ % nshards != shard)
            continue;
        if (t.classes.size() >= 2 || t.text.find("const") != std::string::npos)
            ++g_nontrivial;
        std::string text;
        run_case("X", {t.text}, t.classes, &text);
        if (shard == 0 && idx % 20011 == 7 && g_samples.size() < 12)
            g_samples.push_back("type '" + t.text + "' -> " + oneline(text));
    }
}

int main(int argc, char** argv) {
    std::string mode = argc > 1 ? argv[1] : "quick";
    int shard = 0, nshards = 1;
    if (argc > 2)
        sscanf(argv[2], "%d/%d", &shard, &nshards);
    if (mode == "replay" && argc > 2) {
        // replay "W|name ;; name" or "X|type"
        std::string what = argv[2];
        std::string kind = what.substr(0, 1);
        std::string rest = what.substr(2);
        std::vector<std::string> inputs;
        size_t pos;
        while ((pos = rest.find(" ;; ")) != std::string::npos) {
            inputs.push_back(rest.substr(0, pos));
            rest = rest.substr(pos + 4);
        }
        inputs.push_back(rest);
        std::set<std::string> exp;
        if (kind == "W")
            exp.insert(inputs.begin(), inputs.end());
        else {
            // expected = the class names of the grammar found in the text
            for (auto n : {"other::Animal", "ns::in::Cat", "ns::Dog", "Animal", "mystd::Widget",
                           "app::std::Config", "notyorel::Thing", "stdx::Y"}) {
                std::string t = inputs[0];
                size_t p = 0;
                while ((p = t.find(n, p)) != std::string::npos) {
                    bool left = p == 0 || !(isalnum((unsigned char)t[p - 1]) || t[p - 1] == ':' || t[p - 1] == '_');
                    size_t e = p + strlen(n);
                    bool right = e >= t.size() || !(isalnum((unsigned char)t[e]) || t[e] == ':' || t[e] == '_');
                    if (left && right)
                        exp.insert(n);
                    p = e;
                }
            }
        }
        std::string text;
        bool ok = run_case(kind, inputs, exp, &text);
        printf("OUTPUT\t%s\n", oneline(text).c_str());
        for (auto& c : g_cands)
            printf("VIOL\t%s\n", c.c_str());
        fflush(stdout);
        _exit(ok ? 0 : 1);
    }
    bool thorough = mode == "thorough";
    std::vector<std::string> ids7 = {"a", "ab", "abc", "b", "a1", "a_", "B"};
    std::vector<std::string> ids4 = {"a", "ab", "b", "a1"};
    if (!thorough) {
        writer_space(ids7, 2, 2, shard, nshards);
        writer_space(ids4, 2, 3, shard, nshards);
        writer_space({"a", "ab"}, 3, 3, shard, nshards);
        extractor_space(3, shard, nshards);
    } else {
        writer_space(ids7, 2, 3, shard, nshards);
        writer_space(ids4, 3, 3, shard, nshards);
        writer_space({"a", "ab", "b"}, 2, 4, shard, nshards);
        extractor_space(4, shard, nshards);
    }
    for (auto& c : g_cands)
        printf("CAND\t%s\n", c.c_str());
    for (auto& s : g_samples)
        printf("SAMPLE\t%s\n", s.c_str());
    for (auto& s : g_compile)
        printf("COMPILE\t%s\n", oneline(s).c_str());
    printf(
        "SUMMARY\t{\"cases\": %ld, \"nontrivial\": %ld, \"transitions\": %ld, "
        "\"candidates\": %zu}\n",
        g_cases, g_nontrivial, g_transitions, g_cands.size());
    fflush(stdout);
    _exit(0);
}
