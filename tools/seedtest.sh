#!/bin/bash
# seedtest.sh <seed-name> <prop> [<prop>...]: applies the seeded change to /repo, runs the quick checks, reverts.
cd "$(dirname "$0")/.."
name=$1; shift
if ! git -C /repo diff --quiet; then echo "/repo has uncommitted changes"; exit 2; fi
git -C /repo apply "$PWD/seeded/$name/patch.diff" || { echo "patch does not apply"; exit 2; }
for p in "$@"; do
  out=$(python3 check.py $p --tier quick 2>&1); rc=$?
  echo "$name :: $p rc=$rc :: $(echo "$out" | grep -E "violation 1:|HARNESS" | head -1 | cut -c1-260)"
done
git -C /repo checkout -- .
