#!/bin/bash
# seedtest.sh <seed-name> <prop> [<prop>...]: runs the quick checks against a scratch
# worktree of /repo with the seeded change applied (VERIF_REPO), so that /repo itself
# and anything else using it are not disturbed. Equivalent to `git -C /repo apply`,
# run, `git -C /repo checkout -- .`.
cd "$(dirname "$0")/.."
name=$1; shift
wt=/tmp/seedtest_wt_$$
git -C /repo worktree add -f --detach $wt HEAD >/dev/null 2>&1 || { echo "cannot create worktree"; exit 2; }
trap 'git -C /repo worktree remove --force '$wt' >/dev/null 2>&1' EXIT
d=seeded/$name; [ -d "$d" ] || d=seeded/retired/$name
git -C $wt apply "$PWD/$d/patch.diff" || { echo "$name: patch does not apply"; exit 2; }
for p in "$@"; do
  out=$(VERIF_REPO=$wt python3 check.py $p --tier quick 2>&1); rc=$?
  echo "$name :: $p rc=$rc :: $(echo "$out" | grep -E "violation 1:|HARNESS" | head -1 | cut -c1-260)"
done
