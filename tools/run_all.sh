#!/bin/bash
# runs every registered check's quick (or thorough) command; prints one line each
cd "$(dirname "$0")/.."
tier=${1:-quick}
for p in $(python3 -c "import json;print(' '.join(c['property_id'] for c in json.load(open('MANIFEST.json'))['checks']))"); do
  s=$(date +%s)
  extra=""; [ "$tier" = thorough ] && extra="--deadline ${DEADLINE:-1500}"
  out=$(python3 check.py $p --tier $tier $extra 2>&1); rc=$?
  e=$(date +%s)
  echo "$p rc=$rc $((e-s))s :: $(echo "$out" | grep -E "^$p $tier:|VIOLATION|HARNESS" | head -2 | tr '\n' ' ')"
done
