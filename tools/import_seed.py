#!/usr/bin/env python3
"""import_seed.py <agent-out-dir> <name>: copies a delivered seed into /verif/seeded/<name>/"""
import json, os, shutil, sys
src, name = sys.argv[1], sys.argv[2]
dst = os.path.join(os.path.dirname(os.path.dirname(os.path.abspath(__file__))), "seeded", name)
os.makedirs(dst, exist_ok=True)
for f in ("patch.diff", "demo.cpp"):
    shutil.copy(os.path.join(src, f), os.path.join(dst, f))
m = json.load(open(os.path.join(src, "meta.json")))
m["origin"] = "independent sub-agent given only the property text and its own scratch worktree"
json.dump(m, open(os.path.join(dst, "meta.json"), "w"), indent=1)
print("imported", name)
