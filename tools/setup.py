#!/usr/bin/env python3
"""MANIFEST.setup_cmd: nothing depends on /repo here; every check builds what
it needs from /repo's current working tree, keyed by a content hash."""
import compileall
import os
import shutil
import sys

here = os.path.dirname(os.path.dirname(os.path.abspath(__file__)))
ok = compileall.compile_dir(os.path.join(here, "lib"), quiet=1)
for tool in ("g++", "clang++", "python3"):
    if shutil.which(tool) is None:
        print("missing tool: " + tool, file=sys.stderr)
        ok = False
os.makedirs(os.path.join(here, "build"), exist_ok=True)
os.makedirs(os.path.join(here, "evidence"), exist_ok=True)
sys.exit(0 if ok else 1)
