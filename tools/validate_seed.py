#!/usr/bin/env python3
"""Confirms a seeded change kept under /verif/seeded/<name>/ against the current
/repo HEAD, in a scratch worktree outside /repo and /verif:
  - the patch applies,
  - the repository's own suite builds and passes with it,
  - demo.cpp fails with it and passes without it.
Writes the outcome into meta.json ("validated"). Usage: validate_seed.py <name>... [--keep]
The scratch worktree /tmp/vseed/wt is removed at the end unless --keep."""
import json
import os
import subprocess
import sys
import time

SEEDED = os.path.join(os.path.dirname(os.path.dirname(os.path.abspath(__file__))), "seeded")
WT = "/tmp/vseed/wt"


def sh(cmd, **kw):
    return subprocess.run(cmd, shell=True, stdout=subprocess.PIPE, stderr=subprocess.STDOUT,
                          text=True, **kw)


def ensure_wt():
    head = sh("git -C /repo rev-parse HEAD").stdout.strip()
    if os.path.isdir(WT):
        cur = sh("git -C %s rev-parse HEAD" % WT).stdout.strip()
        if cur != head:
            sh("git -C %s checkout -q --detach %s" % (WT, head))
    else:
        os.makedirs(os.path.dirname(WT), exist_ok=True)
        r = sh("git -C /repo worktree add -f --detach %s HEAD" % WT)
        if r.returncode:
            print(r.stdout)
            sys.exit(2)
    sh("git -C %s checkout -- ." % WT)
    if not os.path.isdir(WT + "/_build"):
        sh("cd %s && cmake -G Ninja -B _build -DCMAKE_BUILD_TYPE=RelWithDebInfo "
           "-DCMAKE_CXX_FLAGS=-Wno-error -DYOMM2_ENABLE_TESTS=ON" % WT)
    return head


def demo(name, tag):
    d = os.path.join(SEEDED, name)
    exe = "/tmp/vseed/demo_%s_%s" % (name, tag)
    r = sh("g++ -std=c++17 -O1 -I%s/include '-DYOMM2_INCLUDE_DIR=\"%s/include\"' '-DYOMM2_INC=\"%s/include\"' %s/demo.cpp -o %s" % (WT, WT, WT, d, exe), timeout=1800)
    if r.returncode:
        return "compile failed: " + r.stdout[-600:], None
    rcs = []
    out = ""
    for _ in range(2):
        try:
            p = sh(exe, timeout=600, cwd="/tmp/vseed")
            rcs.append(p.returncode)
            out = p.stdout[-400:]
        except subprocess.TimeoutExpired:
            rcs.append(124)
    os.remove(exe)
    return out, rcs


def validate(name, jobs):
    d = os.path.join(SEEDED, name)
    head = ensure_wt()
    meta = json.load(open(os.path.join(d, "meta.json")))
    v = {"repo_head": head, "at": time.strftime("%Y-%m-%dT%H:%M:%S")}
    r = sh("git -C %s apply %s/patch.diff" % (WT, d))
    if r.returncode:
        v["result"] = "patch does not apply: " + r.stdout[-300:]
    else:
        b = sh("cd %s && cmake --build _build -j%d 2>&1 | tail -3 && ctest --test-dir _build -j8 --timeout 900 2>&1 | tail -4"
               % (WT, jobs), timeout=7200)
        v["suite_with_patch"] = b.stdout[-300:].strip()
        v["suite_green"] = "100% tests passed" in b.stdout
        out, rcs = demo(name, "patched")
        v["demo_with_patch_rc"] = rcs
        v["demo_with_patch_out"] = out
        sh("git -C %s checkout -- ." % WT)
        out, rcs2 = demo(name, "pristine")
        v["demo_without_patch_rc"] = rcs2
        ok = v["suite_green"] and rcs and all(x != 0 for x in rcs) and rcs2 and all(x == 0 for x in rcs2)
        v["result"] = "confirmed" if ok else "NOT confirmed"
    sh("git -C %s checkout -- ." % WT)
    meta["validated"] = v
    json.dump(meta, open(os.path.join(d, "meta.json"), "w"), indent=1)
    print(name, v["result"], v.get("demo_with_patch_rc"), v.get("demo_without_patch_rc"),
          "suite_green=%s" % v.get("suite_green"))


def main():
    args = [a for a in sys.argv[1:] if not a.startswith("--")]
    keep = "--keep" in sys.argv
    jobs = 8
    for a in sys.argv[1:]:
        if a.startswith("--jobs="):
            jobs = int(a.split("=")[1])
    for name in args:
        validate(name, jobs)
    if not keep:
        sh("git -C /repo worktree remove --force %s" % WT)
        sh("rm -rf /tmp/vseed")


if __name__ == "__main__":
    main()
