#!/usr/bin/env python3
"""seedmatrix.py [<seed>...]: for every seeded change, applies it to a scratch
worktree of /repo (never /repo itself), runs the quick check of its own property
(plus any listed in meta.json "also") against that tree, and records the outcome in
seeded/<name>/detected.json and seeded/MATRIX.md. A seed whose own check
exits 0 is reported as MISSED and the script exits 1. --resume keeps the results already
recorded for the current /repo head (only seeds that were detected)."""
import json
import os
import re
import subprocess
import sys
import time

VERIF = os.path.dirname(os.path.dirname(os.path.abspath(__file__)))
SEEDED = os.path.join(VERIF, "seeded")


def sh(cmd, **kw):
    return subprocess.run(cmd, shell=True, stdout=subprocess.PIPE, stderr=subprocess.STDOUT, text=True, **kw)


def main():
    resume = "--resume" in sys.argv
    sys.argv = [a for a in sys.argv if a != "--resume"]
    names = sys.argv[1:] or sorted(n for n in os.listdir(SEEDED)
                                   if os.path.isfile(os.path.join(SEEDED, n, "patch.diff")))
    wt = "/tmp/seedmatrix_wt_%d" % os.getpid()
    r = sh("git -C /repo worktree add -f --detach %s HEAD" % wt)
    if r.returncode:
        print(r.stdout)
        return 2
    head = sh("git -C /repo rev-parse --short HEAD").stdout.strip()
    missed = []
    rows = []
    try:
        for name in names:
            d = os.path.join(SEEDED, name)
            meta = json.load(open(os.path.join(d, "meta.json")))
            dj = os.path.join(d, "detected.json")
            if resume and os.path.exists(dj):
                old = json.load(open(dj))
                own = old.get("checks", {}).get(name[:3], {})
                if old.get("repo_head") == head and own.get("rc") == 1 and own.get("violation_line"):
                    rows.append((name, old))
                    continue
            sh("git -C %s checkout -- ." % wt)
            a = sh("git -C %s apply %s/patch.diff" % (wt, d))
            if a.returncode:
                print(name, "patch does not apply", a.stdout[-200:])
                missed.append(name)
                continue
            props = [name[:3]] + [p for p in meta.get("also", []) if p != name[:3]]
            det = {"repo_head": head, "at": time.strftime("%Y-%m-%dT%H:%M:%S"), "checks": {}}
            for p in props:
                t0 = time.time()
                o = sh("python3 check.py %s --tier quick" % p, cwd=VERIF,
                       env=dict(os.environ, VERIF_REPO=wt), timeout=7200)
                line = ""
                m = re.search(r"violation 1: (.*)", o.stdout)
                if m:
                    line = m.group(1)[:300]
                hl = [l for l in o.stdout.splitlines() if "HARNESS" in l]
                det["checks"][p] = {"rc": o.returncode, "first": line, "harness": hl[:1],
                                    "violation_line": "VIOLATION property=%s" % p in o.stdout,
                                    "wall_s": round(time.time() - t0, 1)}
                print("%s :: %s rc=%d :: %s" % (name, p, o.returncode, line[:200]), flush=True)
            json.dump(det, open(os.path.join(d, "detected.json"), "w"), indent=1)
            own = det["checks"][name[:3]]
            if own["rc"] != 1 or not own["violation_line"]:
                missed.append(name)
            rows.append((name, det))
    finally:
        sh("git -C /repo worktree remove --force %s" % wt)
    if not sys.argv[1:]:
        with open(os.path.join(SEEDED, "MATRIX.md"), "w") as fh:
            fh.write("# Seeded changes x quick checks (repo %s, %s)\n\n" % (head, time.strftime("%Y-%m-%d %H:%M")))
            fh.write("| seed | check | exit | first violation reported |\n|---|---|---|---|\n")
            for name, det in rows:
                for p, c in det["checks"].items():
                    fh.write("| %s | %s | %d | %s |\n" % (name, p, c["rc"], c["first"].replace("|", "\\|")[:160]))
            fh.write("\nmissed by own check: %s\n" % (", ".join(missed) or "none"))
    print("MISSED:", missed)
    return 1 if missed else 0


if __name__ == "__main__":
    sys.exit(main())
