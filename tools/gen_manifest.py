#!/usr/bin/env python3
"""Regenerates MANIFEST.json from the table below (kept in one place so the
manifest stays valid and consistent with lib/props.py)."""
import json
import os
import sys

HERE = os.path.dirname(os.path.dirname(os.path.abspath(__file__)))
sys.path.insert(0, HERE)
from lib import props  # noqa: E402

NOTE_COMMON = ("Trusted base: g++ 12 / clang 14, the harness (e1/*.hpp etc.), the two reference "
               "models (C++ and python, cross-checked). Small-scope bounds as listed in the "
               "evidence file; ASLR disabled for reproducibility.")

TABLE = {
    "C01": dict(engine="E1 regx", technique="bounded-exhaustive explicit-state exploration of all registries (posets x methods x definition sets x argument tuples) on the real update/resolve/call path vs reference model",
                text="Every registry up to the stated bounds (all naturally labelled posets, all parameter assignments, all definition multisets, all legal argument tuples, all 56 {virtual,non-virtual} signature shapes plus pointer/shared_ptr/virtual_ptr kinds, six policy configurations) is registered in the real catalogs, compiled by the real update and called through the real resolve and operator(); the definition that ran is compared with an order-free reference model. Exhaustive within bounds, not sampled.", ref="3/C01"),
    "C02": dict(engine="E1 regx", technique="bounded-exhaustive exploration of all error cells of all registries under three error facets, plus one forked child per error cell for abort-on-return",
                text="Every tuple with zero or several incomparable applicable definitions of every registry in bounds: handler argument (status, arity, ids of exactly the virtual arguments), exception propagation, a later call, for vectored / deprecated / throwing facets and all 56 signature shapes; handler-returns => SIGABRT checked in forked children.", ref="3/C02"),
    "C03": dict(engine="E1 regx + E2 histx", technique="bounded-exhaustive exploration of all registries: every definition's next pointer after the real update vs reference model",
                text="Every definition of every registry in bounds: the next slot written by the real update equals the model's 'most specific strictly more general definition' / not_implemented / ambiguous.", ref="3/C03"),
    "C04": dict(engine="E1 regx", technique="bounded-exhaustive exploration of lattices x method sets x presentations: slot invariants from the real compiler object + bounds-checked table walk + ASan on the real resolve",
                text="Every lattice up to the bounds x every assignment of parameter classes to three methods x complete / direct-only / split base lists x both record orders x every assignment of abstract flags: each (method,parameter) applicable to a class has its own in-range cell; a bounds-checked re-implementation of the table walk stays inside dispatch_data and agrees with the real resolve, which also runs under AddressSanitizer.", ref="3/C04"),
    "C06": dict(engine="E1 regx", technique="exhaustive enumeration of registration-order permutations (classes x methods x definitions x base-list rotations) of every registry in bounds, differential + reference model",
                text="For every registry in bounds all permutations of class records (n<=4) / reversal and rotations (n=5), all definition orders, both method orders: every observable equals the first permutation's and the order-free model's.", ref="3/C06"),
    "C07": dict(engine="E2 histx", technique="explicit-state BFS over registration/update histories on the real catalogs and update (state = history replayed in a forked pristine process, dedup on live catalogs + persistent implementation state), 7 policy flavours (std / integer / deferred ids, with and without hash, map, indirect); reference model + differential vs fresh process + idempotence",
                text="All histories up to depth 5 (6 thorough) from the empty state and depth 4 (5) from the fully registered state and from two partially registered states over 12 operations (toggle 5 class records, 2 methods, 4 definitions; update): after every update the predicted success/error, every legal call and next vs the model and vs a fresh process given the same registrations, and a second update changes nothing.", ref="3/C07"),
    "C08": dict(engine="E1 regx", technique="exhaustive enumeration of presentations of every inheritance graph in bounds (subsets between direct and transitive bases, self, duplicates, split records, rotations, record orders)",
                text="For every poset in bounds every presentation: the lattice the real compiler reconstructs (covariant sets, direct bases), slot disjointness, dispatch and next all equal the model's.", ref="3/C08"),
    "C09": dict(engine="E5 progx (+E1 virtual_ptr shapes)", technique="exhaustive enumeration inside generated programs over real class lattices: policies x definition subsets x (static, pointee) class pairs x construction routes, differential against the plain-reference twin method; exhaustive short histories for pointer validity across updates",
                text="For five real lattices (incl. virtual inheritance, non-zero base offsets and an abstract class whose constructors dispatch) every construction route (incl. const-qualified pointees, final on smart pointers, move / assignment) of virtual_ptr / virtual_shared_ptr for every (static, pointee) pair under four policies and all 16 definition subsets dispatches like a plain reference and gives back the original object; every history up to depth 4 (5) of definition changes, updates, pointer creations and calls keeps earlier pointers valid as documented (across updates when indirect).", ref="3/C09",
                note="Trusted base: g++ 12, e5/vptr.cpp. The twin virtual_<T&> method is itself validated by C01."),
    "C10": dict(engine="E1 regx", technique="bounded-exhaustive exploration of the same registries under six RTTI flavours (std, integer, many-to-one projection with/without hash, deferred with/without hash), all alias assignments, second update; reference model + cross-flavour digest",
                text="Every registry in bounds is compiled and called under each RTTI flavour, each followed by a second update; for the two-ids-per-class flavours every assignment of aliases to every use of a class id (exhaustive up to 2^10..2^12, patterns beyond) and every alias of every argument. All outcomes equal the model and a digest of all outcomes is identical across flavours.", ref="3/C10"),
    "C12": dict(engine="E1 regx", technique="bounded-exhaustive exploration of registries with methods of arity 1..4: generated static-offset text parsed and compared with compiler result and installed arrays; static-offset branch of the real resolve; exhaustive single-number perturbations under the debug policy",
                text="Every registry in bounds: the numbers the real generator writes equal, position by position, what update installed; fed back as static offsets every legal tuple dispatches like the model (release and debug policies); every perturbed number is rejected by the debug consistency check with the right error before a definition runs.", ref="3/C12"),
    "C13": dict(engine="E1 regx", technique="bounded-exhaustive exploration of lattices x method sets: emitted text parsed, reference decoder (exact consumption, in-place safety), real decoder between guard pages, dispatch after decode vs after update vs model",
                text="Every registry in bounds (incl. unused classes, first slot != 0, error cells): the emitted structure has non-negative sizes and fitting initialisers; decoding consumes exactly the emitted codes, never overwrites unread input, stays inside the structure (guard pages, ASan build), and afterwards every legal tuple dispatches exactly as after update.", ref="3/C13"),
    "C14": dict(engine="E2 iso", technique="exhaustive enumeration of all operation sequences (interleavings) up to a depth over 2-3 policies sharing classes (rebound, replaced facets, two-argument facets, the two stock policies themselves), snapshot-invariance of every non-acting policy after each operation + reference model",
                text="Every sequence of <= 4 (5) operations over two policies (3 in thorough) from the pristine state and <= 3 (4) from a fully set-up policy, 10 operations per policy incl. real class_declaration objects, real add_function with a shared function, update, handler installation, virtual_ptr creation: no operation on one policy changes any observable of another.", ref="3/C14",
                note="Trusted base: compiler, harness e2/iso.cpp. Worlds are reset explicitly between sequences; policies come from rebind/replace as documented."),
    "C15": dict(engine="E1 regx", technique="bounded-exhaustive exploration: every registry x every class left out x every place and argument route, on the stock debug policy, with AddressSanitizer as crash/garbage-read monitor",
                text="Every registry in bounds x each class omitted in turn from its record while still used as base / method parameter / definition parameter (update must report unknown_class_error with its id) or only as the dynamic class of an argument on 8 argument routes incl. exact-type virtual_ptr (error at call/construction, no body run, no crash); final with a wrong dynamic type gives method_table_error.", ref="3/C15"),
    "C16": dict(engine="E4 schedx", technique="stateless model checking of the implementation: preemption-bounded DFS over thread interleavings at access-level scheduling points (compile-time TSan instrumentation bound to an own runtime), vector-clock race monitor, sequential-answer oracle; separate free-running real-TSan pass",
                text="All interleavings with <= 2 (3) preemptions of 2-3 threads performing every dispatch route on a shared registry, with update of an unrelated policy running concurrently; scheduling points are the real loads/stores/atomics of the call path; no data race, every thread gets the sequential answers, no deadlock. The explorer's self-test (a seeded check-then-act cache) is found on every run. A free-running pass under real ThreadSanitizer (gcc and clang) covers what a serialising scheduler cannot.", ref="3/C16",
                note="Trusted base: gcc's -fsanitize=thread instrumentation pass, e4/mc_rt.c (scheduler + HB monitor), the harness bodies. SC interleavings only; libc/libstdc++ internals are not instrumented."),
    "C17": dict(engine="E1 regx", technique="bounded-exhaustive exploration of registries x all abstract-flag assignments: update report vs exhaustive tuple enumeration by the reference model",
                text="Every registry in bounds x every subset of abstract classes: per-method and total report flags (gaps, ambiguities, concrete variants) iff the model finds such a tuple; cell count equals tables built and installed.", ref="3/C17"),
    "C05": dict(engine="E3 hashx", technique="exhaustive enumeration of a finite alphabet of id sets x publish histories (all sequences up to depth 3/4) x search budgets, on the real hash_initialize / publish_vptrs / hash_type_id",
                text="Every id set of the alphabet (7 bases x ~20 strides x 12-15 sizes, high-bit-only, bit-reversed, clustered, two ids per class, seeded xorshift), every sequence of 2..3(4) publishes over a 12-set sub-alphabet on one policy state, every budget in {1..8,16,64} followed by the default budget: after each call either a hash_search_error was reported or the installed hash is perfect, in range, holds the right v-table pointers, and the checked variant reports every probed unregistered id as unknown.", ref="3/C05",
                note="Trusted base: compiler, harness e3/hashx.cpp. Hook H1 (guarded by JLL63_YOMM2_VERIF) makes the attempt budget adjustable; invalid_type is excluded from the domain as documented."),
    "C18": dict(engine="E6 listx", technique="explicit-state BFS over all reachable static_list states applying every operation in every state, plus all operation sequences up to a length, on the real static_list and on real registration objects, vs a std::vector model",
                text="The state space of the intrusive list over a pool of 5 (quick) / 6 (thorough) nodes is finite and fully explored (every op from every state), every sequence of <= 8 / 10 operations is also run end-to-end; the same through class_declaration / method / definition_info constructors and destructors; after each operation iteration, size, empty and all link fields equal the model.", ref="3/C18",
                note="Trusted base: compiler, harness e6/listx.cpp. Objects are placement-constructed in zero-filled static buffers, as registration objects are."),
    "C19": dict(engine="E7 fwdx", technique="exhaustive enumeration of name sets and of type-description derivations through the real generator, output parsed by an independent recursive-descent parser; sample compiled by g++",
                text="Every declarable set of <= 3 (4) qualified names over prefix-colliding identifiers and depth <= 2 (3), and every derivation to depth 3 (4) of a demangle-style type grammar: output is balanced, declares each requested class exactly once in its namespace and nothing else; fundamental types, cv-qualifiers, template names, std:: and yorel:: are skipped.", ref="3/C19",
                note="Trusted base: compiler, harness e7/fwdx.cpp and its 40-line parser. Names outside the grammar (anonymous namespaces, classes nested in templates) are not covered."),
    "C11": dict(engine="E5 progx", technique="exhaustive enumeration of a finite grammar of generated programs (parameter kind x inheritance shape x position x companion category x return kind, two object layouts each), compiled from /repo/include with the macro front end, self-checking inside the definitions",
                text="Every derivation of the grammar is generated, compiled (release and debug default policy) and run: each definition receives the caller's own object at the address the language's conversion gives (incl. offsets and virtual bases, two most-derived layouts), smart pointers share ownership, reference parameters alias, values and returns pass unchanged, rvalues are never copied. By-value rvalues are moved once per by-value layer: recorded as a known finding.", ref="3/C11",
                note="Trusted base: g++ 12, lib/gen_args.py, e5/args_common.hpp. Finite grammar of programs."),
    "C20": dict(engine="E5 progx", technique="exhaustive enumeration of a finite program family (all list shapes with product <= 6 x both front-end branches x all not_defined subsets; large products across the 512 split x patterns), each program compiled from /repo/include and self-checking at run time",
                text="Every program of the family is compiled and run: the definitions found in the method's catalog are exactly the defined combinations, every combination dispatches to its own definition, product is row-major. Exhaustive over the stated family, including the divide-and-conquer aggregate above 512 elements.", ref="3/C20",
                note="Trusted base: g++ 12, the generator table in lib/engines.py, e5/usedefs.cpp. A finite grammar of programs; list counts above 3 are not generated."),
}

ENGINES = [
    {"name": "E5 progx", "path": "e5/", "serves_properties": ["C09", "C11", "C20"], "kind_free_text": "finite program-family enumerator: programs using the public templates/macros compiled from /repo/include, self-checking at run time"},
    {"name": "E2 histx", "path": "e1/drivers_history.hpp, e2/", "serves_properties": ["C03", "C07", "C14"], "kind_free_text": "explicit-state BFS over registration histories (fork-replayed) and exhaustive interleavings over several policies"},
    {"name": "E3 hashx", "path": "e3/", "serves_properties": ["C05"], "kind_free_text": "enumerator of id sets / publish histories / budgets over the real perfect-hash facets"},
    {"name": "E4 schedx", "path": "e4/", "serves_properties": ["C16"], "kind_free_text": "access-level preemption-bounded scheduler (own __tsan_* runtime) + explorer + real-TSan free-running pass"},
    {"name": "E6 listx", "path": "e6/", "serves_properties": ["C18"], "kind_free_text": "explicit-state BFS over static_list and registration-object lifetimes"},
    {"name": "E7 fwdx", "path": "e7/", "serves_properties": ["C19"], "kind_free_text": "exhaustive name-set / type-grammar enumeration through the real generator"},
    {"name": "E1 regx", "path": "e1/", "serves_properties": ["C01", "C02", "C03", "C04", "C06", "C08", "C10", "C12", "C13", "C15", "C17"],
     "kind_free_text": "explicit-state bounded-exhaustive explorer of registries over the real yomm2 compiler and call path (C++), sharded, crash-contained, replayable"},
]

PENDING_REASON = "check not built yet in this round (planned, see DESIGN.md section 10); not claimed until its machinery exists"


def main():
    extra = {}
    extra_path = os.path.join(HERE, "tools", "manifest_extra.json")
    if os.path.exists(extra_path):
        extra = json.load(open(extra_path))
    table = dict(TABLE)
    table.update(extra.get("table", {}))
    engines = ENGINES + extra.get("engines", [])
    checks = []
    for pid in sorted(table):
        if pid not in props.CHECKS:
            continue
        t = table[pid]
        checks.append({
            "property_id": pid,
            "quick_cmd": "python3 check.py %s --tier quick" % pid,
            "thorough_cmd": "python3 check.py %s --tier thorough --deadline %d" % (pid, t.get("deadline", 1500)),
            "evidence_file": "/verif/evidence/%s.json" % pid,
            "replay_cmd_template": "python3 check.py %s --replay {path}" % pid,
            "engine": t["engine"],
            "level_claimed": {"category": t.get("category", "model_checking"), "text": t["text"],
                              "design_ref": "DESIGN.md " + t["ref"]},
            "level_note": t.get("note", NOTE_COMMON),
            "technique": t["technique"],
        })
    all_ids = [json.loads(l)["id"] for l in open(os.path.join(HERE, "properties.jsonl"))]
    na = extra.get("not_applicable", {})
    not_app = []
    for pid in all_ids:
        if pid in [c["property_id"] for c in checks]:
            continue
        not_app.append({"property_id": pid, "reason": na.get(pid, PENDING_REASON)})
    hooks = {
        "guard": "JLL63_YOMM2_VERIF",
        "enable": "harness translation units are compiled with -DJLL63_YOMM2_VERIF against /repo/include (header-only library); the repository's own build never defines it",
        "baseline_off_cmd": "cmake -G Ninja -S /repo -B /repo/_build -DCMAKE_BUILD_TYPE=RelWithDebInfo -DCMAKE_CXX_FLAGS=-Wno-error -DYOMM2_ENABLE_TESTS=ON && cmake --build /repo/_build -j16 && ctest --test-dir /repo/_build -j8 --timeout 900",
        "source_commits": ["897d902"] + extra.get("hook_commits", []),
        "add_only": True,
    }
    man = {
        "version": 1,
        "setup_cmd": "python3 tools/setup.py",
        "hooks": hooks,
        "engines": engines,
        "checks": checks,
        "notes": "All checks are bounded-exhaustive explorations of the real implementation (see DESIGN.md). Exit codes: 0 held, 1 VIOLATION, 2 harness error.",
        "not_applicable": not_app,
    }
    with open(os.path.join(HERE, "MANIFEST.json"), "w") as fh:
        json.dump(man, fh, indent=1)
    print("MANIFEST.json: %d checks, %d not claimed" % (len(checks), len(not_app)))


if __name__ == "__main__":
    main()
