// iso.cpp - engine E2 for C14: all interleavings (operation sequences up to a
// depth) of registrations, updates, handler installations and virtual_ptr
// creations over two or three policies sharing the same classes; after every
// operation on one policy the complete observable snapshot of every OTHER
// policy must be unchanged.
#include <yorel/yomm2/core.hpp>
#include <yorel/yomm2/macros.hpp>

#include <cstdio>
#include <cstring>
#include <functional>
#include <map>
#include <new>
#include <optional>
#include <string>
#include <vector>
#include <sys/mman.h>
#include <sys/wait.h>
#include <unistd.h>

using namespace yorel::yomm2;
namespace d = yorel::yomm2::detail;

struct K0 {
    virtual ~K0() {
    }
};
struct K1 : K0 {};
struct K2 : K0 {};
struct K3 : K1 {};

struct PA : policy::release::rebind<PA> {};
struct PB : policy::release::rebind<PB>::replace<
                policy::type_hash, policy::checked_perfect_hash<PB>> {};
struct PC : policy::basic_policy<
                PC, policy::std_rtti, policy::vptr_map<PC>,
                policy::vectored_error<PC>> {};
// two policies rebound from the stock checked policy
struct PD1 : policy::debug::rebind<PD1> {};
struct PD2 : policy::debug::rebind<PD2> {};
// facets that carry a second, non-default template argument, then rebound
struct handler_provider {
    static void default_error_handler(const error_type&) {
    }
};
struct PE1 : policy::basic_policy<
                 PE1, policy::std_rtti,
                 policy::vptr_map<PE1, std::map<type_id, const std::uintptr_t*>>,
                 policy::vectored_error<PE1, handler_provider>> {};
struct PE2 : PE1::rebind<PE2> {};

// the macro front end with an explicit policy, in its four forms: everything
// they register belongs to that policy and to no other
struct PMAC : policy::release::rebind<PMAC> {};
YOMM2_DECLARE(int, mac_free, (virtual_<K0&>), PMAC);
YOMM2_DEFINE(int, mac_free, (K1&)) {
    return 1;
}
struct MacHolder {
    YOMM2_STATIC_DECLARE(int, mac_static, (virtual_<K0&>), PMAC);
};
static class_declaration<K0, PMAC> g_mac_k0;
static class_declaration<K1, K0, PMAC> g_mac_k1;

static K0 g_o0;
static K1 g_o1;
static K2 g_o2;
static K3 g_o3;
static K0* g_obj[4] = {&g_o0, &g_o1, &g_o2, &g_o3};
static int g_parent[4] = {-1, 0, 0, 1};
static bool le(int dcls, int b) {
    for (int c = dcls; c >= 0; c = g_parent[c])
        if (c == b)
            return true;
    return false;
}

struct Thrown {};
static int g_last_handler = -1; // which handler was invoked
static int g_last_body = -1;

template<int I>
int body1(K0&) {
    g_last_body = I;
    return I;
}
template<int I>
int body2(K0&, K0&) {
    g_last_body = 10 + I;
    return 10 + I;
}

struct key1;
struct key2;

template<class X>
struct World {
    using M1 = method<key1, int(virtual_<K0&>), X>;
    using M2 = method<key2, int(virtual_<K0&>, virtual_<K0&>), X>;
    using Decl0 = class_declaration<K0, X>;
    using Decl1 = class_declaration<K1, K0, X>;
    using Decl2 = class_declaration<K2, K0, X>;
    using Decl3 = class_declaration<K3, K1, K0, X>;

    alignas(16) static inline unsigned char decl_mem[4][128];
    alignas(16) static inline unsigned char def_mem[3][128];
    static inline bool rec_live[4], def_live[3];
    static inline std::vector<int> rec_order;
    static inline bool dirty = true, valid = false;
    static inline int handler = 0; // 0 = default, 1.. = installed handler id
    static inline int policy_id;
    static inline std::optional<virtual_ptr<K0, X>> vp; // created after the last update
    static inline int vp_class = -1;

    static void reset() {
        X::classes.clear();
        for (auto& m : X::methods)
            m.specs.clear();
        X::methods.clear();
        X::methods.push_back(M1::fn);
        X::methods.push_back(M2::fn);
        memset(rec_live, 0, sizeof rec_live);
        memset(def_live, 0, sizeof def_live);
        memset(decl_mem, 0, sizeof decl_mem);
        memset(def_mem, 0, sizeof def_mem);
        rec_order.clear();
        dirty = true;
        valid = false;
        handler = 0;
        vp.reset();
        vp_class = -1;
        X::dispatch_data.clear();
        X::dispatch_data.shrink_to_fit();
        X::vptrs.clear();
        X::template static_vptr<K0> = nullptr;
        X::template static_vptr<K1> = nullptr;
        X::template static_vptr<K2> = nullptr;
        X::template static_vptr<K3> = nullptr;
        if constexpr (X::template has_facet<policy::type_hash>) {
            X::hash_mult = 0;
            X::hash_shift = 0;
            X::hash_length = 0;
            X::hash_min = 0;
            X::hash_max = 0;
        }
        X::error = default_handler;
    }
    static void default_handler(const error_type&) {
        g_last_handler = 100 * policy_id;
        throw Thrown{};
    }
    static void installed_handler(const error_type&) {
        g_last_handler = 100 * policy_id + 1;
        throw Thrown{};
    }

    // definitions: 0 = M1 on K1, 1 = M1 on K0, 2 = M2 on (K1, K2)
    static d::definition_info* def(int k) {
        return reinterpret_cast<d::definition_info*>(def_mem[k]);
    }
    static type_id* def_vp(int k) {
        static type_id ids[3][3];
        return ids[k];
    }

    // ops: 0..3 toggle class record, 4..6 toggle definition, 7 update,
    // 8 install handler, 9 create virtual_ptr, 10 an update that fails while
    // installing (hash search budget exhausted, hook H1)
    static constexpr int NOPS = 11;
    static bool enabled(int op) {
        if (op == 9)
            return valid; // a virtual_ptr can only be made from valid tables
        if (op == 10)
            return X::template has_facet<policy::type_hash>;
        return true;
    }
    template<class Pol>
    static void failing_update() {
#ifdef JLL63_YOMM2_VERIF
        if constexpr (Pol::template has_facet<policy::type_hash>) {
            policy::fast_perfect_hash<Pol>::hash_attempt_budget = 0;
            bool threw = false;
            try {
                update<Pol>();
            } catch (Thrown&) {
                threw = true;
            }
            policy::fast_perfect_hash<Pol>::hash_attempt_budget = 100000;
            // either an unknown class was reported first, or the search failed
            if (!threw)
                g_model_mismatch = true;
        }
#endif
    }
    static void apply(int op) {
        if (op < 4) {
            void* mem = decl_mem[op];
            if (!rec_live[op]) {
                memset(mem, 0, 128);
                switch (op) {
                case 0:
                    new (mem) Decl0();
                    break;
                case 1:
                    new (mem) Decl1();
                    break;
                case 2:
                    new (mem) Decl2();
                    break;
                case 3:
                    new (mem) Decl3();
                    break;
                }
                rec_order.push_back(op);
            } else {
                switch (op) {
                case 0:
                    reinterpret_cast<Decl0*>(mem)->~Decl0();
                    break;
                case 1:
                    reinterpret_cast<Decl1*>(mem)->~Decl1();
                    break;
                case 2:
                    reinterpret_cast<Decl2*>(mem)->~Decl2();
                    break;
                case 3:
                    reinterpret_cast<Decl3*>(mem)->~Decl3();
                    break;
                }
                for (size_t i = 0; i < rec_order.size(); ++i)
                    if (rec_order[i] == op)
                        rec_order.erase(rec_order.begin() + i);
            }
            rec_live[op] = !rec_live[op];
            dirty = true;
            valid = false;
            vp.reset();
        } else if (op < 7) {
            int k = op - 4;
            if (k == 1) {
                // the real front end: add_function with a function that every
                // policy uses (idempotent; re-linked after an unload)
                if (!def_live[1]) {
                    if (!real_info) {
                        auto before = M1::fn.specs.size();
                        typename M1::template add_function<body1<1>> reg;
                        if (M1::fn.specs.size() == before + 1)
                            for (auto& sp : M1::fn.specs)
                                real_info = &sp; // the last one
                    } else
                        M1::fn.specs.push_back(*real_info);
                } else if (real_info)
                    M1::fn.specs.remove(*real_info);
            } else if (!def_live[k]) {
                memset(def_mem[k], 0, 128);
                auto di = new (def_mem[k]) d::definition_info();
                type_id* ids = def_vp(k);
                if (k == 0) {
                    di->method = &M1::fn;
                    di->pf = (void*)body1<0>;
                    ids[0] = X::template static_type<K1>();
                    di->vp_begin = ids;
                    di->vp_end = ids + 1;
                } else {
                    di->method = &M2::fn;
                    di->pf = (void*)body2<2>;
                    ids[0] = X::template static_type<K1>();
                    ids[1] = X::template static_type<K2>();
                    di->vp_begin = ids;
                    di->vp_end = ids + 2;
                }
                di->type = di->method->method_type;
                di->method->specs.push_back(*di);
            } else
                def(k)->~definition_info();
            def_live[k] = !def_live[k];
            dirty = true;
            valid = false;
            vp.reset();
        } else if (op == 7) {
            vp.reset();
            bool consistent = true;
            // the model: every base of a live class and every class a method
            // or live definition names must be registered
            if (!rec_live[0])
                consistent = false; // both methods take K0
            if (rec_live[1] && !rec_live[0])
                consistent = false;
            if (rec_live[2] && !rec_live[0])
                consistent = false;
            if (rec_live[3] && (!rec_live[1] || !rec_live[0]))
                consistent = false;
            if (def_live[0] && !rec_live[1])
                consistent = false;
            if (def_live[2] && (!rec_live[1] || !rec_live[2]))
                consistent = false;
            bool ok = true;
            try {
                update<X>();
            } catch (Thrown&) {
                ok = false;
            }
            dirty = false;
            valid = ok;
            if (ok != consistent)
                g_model_mismatch = true;
        } else if (op == 10) {
            vp.reset();
            failing_update<X>();
            dirty = false;
            valid = false;
        } else if (op == 8) {
            X::error = installed_handler;
            handler = 1;
        } else if (op == 9) {
            // from a base reference to the most derived registered class
            int c = rec_live[3] ? 3 : rec_live[1] ? 1 : 0;
            try {
                vp.emplace(*g_obj[c]);
                vp_class = c;
            } catch (Thrown&) {
                g_model_mismatch = true; // a registered class was not found
            }
        }
    }
    static inline bool g_model_mismatch = false;
    static inline d::definition_info* real_info = nullptr;

    static int expected1(int c) {
        // most specific of the live definitions of M1 applicable to c
        if (def_live[0] && le(c, 1))
            return 0;
        if (def_live[1])
            return 1;
        return -1;
    }
    static int expected2(int a, int b) {
        if (def_live[2] && le(a, 1) && le(b, 2))
            return 12;
        return -1;
    }

    // everything observable about this policy
    static std::string snapshot(bool& model_ok) {
        std::string s;
        s += "recs:";
        for (auto& ci : X::classes)
            s += std::to_string((std::uintptr_t)&ci % 100003) + ",";
        s += " meths:" + std::to_string(X::methods.size());
        s += " specs:" + std::to_string(M1::fn.specs.size()) + "," +
            std::to_string(M2::fn.specs.size());
        // handler identity, by behaviour
        g_last_handler = -1;
        try {
            X::error(error_type(hash_search_error()));
        } catch (Thrown&) {
        }
        s += " handler:" + std::to_string(g_last_handler);
        if (g_last_handler != 100 * policy_id + handler)
            model_ok = false;
        s += " data:" + std::to_string((std::uintptr_t)X::dispatch_data.data() % 1000003) +
            "/" + std::to_string(X::dispatch_data.size());
        std::uintptr_t h = 1469598103934665603ull;
        for (auto w : X::dispatch_data)
            h = (h ^ w) * 1099511628211ull;
        s += "/" + std::to_string(h % 1000003);
        if constexpr (X::template has_facet<policy::type_hash>)
            s += " hash:" + std::to_string(X::hash_mult % 1000003) + "," +
                std::to_string(X::hash_shift) + "," + std::to_string(X::hash_length);
        s += " vptrs:" + std::to_string(X::vptrs.size());
        s += " sv:" +
            std::to_string((std::uintptr_t)X::template static_vptr<K0> % 1000003) + "," +
            std::to_string((std::uintptr_t)X::template static_vptr<K1> % 1000003) + "," +
            std::to_string((std::uintptr_t)X::template static_vptr<K2> % 1000003) + "," +
            std::to_string((std::uintptr_t)X::template static_vptr<K3> % 1000003);
        s += " ss:" + std::to_string(M1::slots_strides[0]) + "," +
            std::to_string(M2::slots_strides[0]) + "," + std::to_string(M2::slots_strides[1]) +
            "," + std::to_string(M2::slots_strides[2]);
        if (valid) {
            s += " calls:";
            for (int c = 0; c < 4; ++c) {
                if (!rec_live[c])
                    continue;
                int got;
                g_last_body = -1;
                try {
                    got = M1::fn(*g_obj[c]);
                } catch (Thrown&) {
                    got = -1;
                }
                s += std::to_string(got) + ",";
                if (got != expected1(c))
                    model_ok = false;
                for (int c2 = 0; c2 < 4; ++c2) {
                    if (!rec_live[c2])
                        continue;
                    try {
                        got = M2::fn(*g_obj[c], *g_obj[c2]);
                    } catch (Thrown&) {
                        got = -1;
                    }
                    s += std::to_string(got) + ",";
                    if (got != expected2(c, c2))
                        model_ok = false;
                }
            }
            if (vp) {
                int got;
                try {
                    got = vpm_call(*vp);
                } catch (Thrown&) {
                    got = -1;
                }
                s += " vp:" + std::to_string(got);
                if (got != expected1(vp_class))
                    model_ok = false;
            }
        }
        return s;
    }
    // a method taking virtual_ptr, sharing M1's definitions is not possible
    // (different method): dispatch M1 through the pointer's v-table instead
    static int vpm_call(const virtual_ptr<K0, X>& p) {
        auto vt = p._vptr();
        auto pf = reinterpret_cast<int (*)(K0&)>(vt[M1::slots_strides[0]]);
        return pf(*p);
    }
};

static long g_sequences = 0, g_transitions = 0, g_snapshots = 0, g_nontrivial = 0;
static std::vector<std::string> g_cands, g_samples;

template<class... W>
struct Worlds {
    static constexpr int N = sizeof...(W);
    static void reset() {
        int id = 1;
        ((W::policy_id = id++, W::reset()), ...);
    }
    static constexpr int NOPS = 11;
    static int nops() {
        return N * NOPS;
    }
    static bool enabled(int op) {
        int w = op / NOPS, o = op % NOPS, i = 0;
        bool r = false;
        ((i++ == w ? (r = W::enabled(o), 0) : 0), ...);
        return r;
    }
    static void apply(int op) {
        int w = op / NOPS, o = op % NOPS, i = 0;
        ((i++ == w ? (W::apply(o), 0) : 0), ...);
    }
    static void snapshots(std::vector<std::string>& out, bool& model_ok) {
        out.clear();
        (out.push_back(W::snapshot(model_ok)), ...);
    }
    static bool mismatch() {
        return (W::g_model_mismatch || ...);
    }
};

static std::string g_family = "W2";
static std::string seq_text(const std::vector<int>& seq) {
    std::string s = g_family + " ";
    for (int op : seq)
        s += std::string(1, char('A' + op / 11)) + std::to_string(op % 11) + " ";
    return s;
}

// runs one sequence from pristine worlds, checking isolation at every step
template<class WS>
static bool run_sequence(const std::vector<int>& seq, bool report) {
    WS::reset();
    std::vector<std::string> before, after;
    bool model_ok = true;
    WS::snapshots(before, model_ok);
    for (size_t i = 0; i < seq.size(); ++i) {
        int op = seq[i];
        if (!WS::enabled(op))
            return false;
        WS::apply(op);
        ++g_transitions;
        WS::snapshots(after, model_ok);
        g_snapshots += WS::N;
        int w = op / 11;
        for (int x = 0; x < WS::N; ++x)
            if (x != w && before[x] != after[x]) {
                if (report && g_cands.size() < 40)
                    g_cands.push_back(
                        seq_text(std::vector<int>(seq.begin(), seq.begin() + i + 1)) +
                        "\toperation on policy " + std::string(1, char('A' + w)) +
                        " changed policy " + std::string(1, char('A' + x)) + ": [" + before[x] +
                        "] -> [" + after[x] + "]");
                return true;
            }
        if ((!model_ok || WS::mismatch()) && report) {
            if (g_cands.size() < 40)
                g_cands.push_back(
                    seq_text(std::vector<int>(seq.begin(), seq.begin() + i + 1)) +
                    "\tpolicy behaves unlike the reference model after this sequence: [" +
                    after[w] + "]");
            return true;
        }
        before.swap(after);
    }
    return true;
}

template<class WS>
static void explore(int depth, int shard, int nshards, std::vector<int> prefix) {
    std::vector<int> seq = prefix;
    long idx = 0;
    std::function<void()> rec = [&]() {
        if (seq.size() > prefix.size()) {
            // shard on the first two free operations
            bool mine = true;
            if (seq.size() >= prefix.size() + 2) {
                int a = seq[prefix.size()], b = seq[prefix.size() + 1];
                mine = (a * 31 + b) % nshards == shard;
            } else
                mine = shard == 0;
            if (mine) {
                ++g_sequences;
                bool involves_two = false;
                for (size_t i = 1; i < seq.size(); ++i)
                    if (seq[i] / 11 != seq[0] / 11)
                        involves_two = true;
                if (involves_two)
                    ++g_nontrivial;
                if (!run_sequence<WS>(seq, true))
                    return; // a disabled op: no extension either
                if (shard == 0 && g_samples.size() < 5 && involves_two && seq.size() >= 4 &&
                    ++idx % 4001 == 1)
                    g_samples.push_back(seq_text(seq));
            } else {
                // still need to know whether the sequence is executable
                WS::reset();
                for (int op : seq) {
                    if (!WS::enabled(op))
                        return;
                    WS::apply(op);
                }
            }
        }
        if ((int)(seq.size() - prefix.size()) == depth)
            return;
        for (int op = 0; op < WS::nops(); ++op) {
            seq.push_back(op);
            rec();
            seq.pop_back();
        }
    };
    rec();
}

template<class L>
static long count_of(L& list) {
    long n = 0;
    for (auto& x : list) {
        (void)x;
        ++n;
    }
    return n;
}

// must run before any world is reset (reset() re-creates the method catalogs)
static void check_macro_routing() {
    ++g_sequences;
    long in_mac = count_of(PMAC::methods);
    long defs = 0;
    for (auto& m : PMAC::methods)
        defs += count_of(m.specs);
    long in_debug = count_of(policy::debug::methods);
    long in_release = count_of(policy::release::methods);
    // the stock policies hold the two methods of World<policy::debug / release> only
    if (in_mac != 2 || defs != 1 || in_debug != 2 || in_release != 2) {
        g_cands.push_back(
            "MACROS \tmethods declared through the macros for policy PMAC: " +
            std::to_string(in_mac) + " in its catalog (expected 2) with " + std::to_string(defs) +
            " definitions (expected 1); policy::debug holds " + std::to_string(in_debug) +
            " methods, policy::release " + std::to_string(in_release) + " (expected 2 each)");
        return;
    }
    try {
        update<PMAC>();
        K1 k1;
        if (mac_free(k1) != 1)
            g_cands.push_back("MACROS \tmac_free(K1) did not run its definition");
    } catch (...) {
        g_cands.push_back("MACROS \tupdate / call in the macro policy reported an error");
    }
}

int main(int argc, char** argv) {
    std::string mode = argc > 1 ? argv[1] : "quick";
    int shard = 0, nshards = 1;
    if (argc > 2)
        sscanf(argv[2], "%d/%d", &shard, &nshards);
    using W2 = Worlds<World<PA>, World<PB>>;
    using W3 = Worlds<World<PA>, World<PB>, World<PC>>;
    using WE = Worlds<World<PE1>, World<PE2>>;
    // the two stock policies themselves, not rebound
    using WS = Worlds<World<policy::debug>, World<policy::release>>;
    using WD = Worlds<World<PD1>, World<PD2>>;
    if (mode == "replay" && argc > 2 && std::string(argv[2]).rfind("MACROS", 0) == 0) {
        check_macro_routing();
        for (auto& c : g_cands)
            printf("VIOL\t%s\n", c.c_str());
        fflush(stdout);
        _exit(g_cands.empty() ? 0 : 1);
    }
    if (mode == "replay" && argc > 2) {
        std::string text = argv[2];
        std::vector<int> seq;
        std::string family = "W2";
        size_t start = 0;
        if (text.rfind("W", 0) == 0) {
            family = text.substr(0, text.find(' '));
            start = text.find(' ') + 1;
        }
        for (size_t i = start; i + 1 < text.size(); ++i)
            if (text[i] >= 'A' && text[i] <= 'C' && isdigit((unsigned char)text[i + 1]))
                seq.push_back((text[i] - 'A') * 11 + atoi(text.c_str() + i + 1));
        if (family == "W3")
            run_sequence<W3>(seq, true);
        else if (family == "WE")
            run_sequence<WE>(seq, true);
        else if (family == "WS")
            run_sequence<WS>(seq, true);
        else if (family == "WD")
            run_sequence<WD>(seq, true);
        else
            run_sequence<W2>(seq, true);
        for (auto& c : g_cands)
            printf("VIOL\t%s\n", c.c_str());
        fflush(stdout);
        _exit(g_cands.empty() ? 0 : 1);
    }
    // starting points: pristine, and "policy A fully set up" (0 1 2 3 4 5 6 7 8 9)
    std::vector<int> full_a = {0, 1, 2, 3, 4, 5, 6, 7, 8, 9};
    std::vector<int> full_b = {11, 12, 13, 14, 15, 16, 17, 18, 19, 20};
    if (shard == 0)
        check_macro_routing();
    if (mode == "quick") {
        g_family = "W2";
        explore<W2>(4, shard, nshards, {});
        explore<W2>(3, shard, nshards, full_a);
        explore<W2>(3, shard, nshards, full_b);
        g_family = "WE";
        explore<WE>(4, shard, nshards, {});
        explore<WE>(3, shard, nshards, full_a);
        g_family = "WS";
        explore<WS>(3, shard, nshards, {});
        explore<WS>(3, shard, nshards, full_a);
        explore<WS>(3, shard, nshards, full_b);
        g_family = "WD";
        explore<WD>(3, shard, nshards, {});
        explore<WD>(3, shard, nshards, full_a);
        explore<WD>(3, shard, nshards, full_b);
    } else {
        g_family = "W2";
        explore<W2>(5, shard, nshards, {});
        explore<W2>(4, shard, nshards, full_a);
        explore<W2>(4, shard, nshards, full_b);
        std::vector<int> both = full_a;
        both.insert(both.end(), full_b.begin(), full_b.end());
        explore<W2>(4, shard, nshards, both);
        g_family = "WE";
        explore<WE>(5, shard, nshards, {});
        explore<WE>(4, shard, nshards, full_a);
        explore<WE>(4, shard, nshards, full_b);
        explore<WE>(4, shard, nshards, both);
        g_family = "WS";
        explore<WS>(5, shard, nshards, {});
        explore<WS>(4, shard, nshards, full_a);
        explore<WS>(4, shard, nshards, full_b);
        explore<WS>(3, shard, nshards, both);
        g_family = "WD";
        explore<WD>(5, shard, nshards, {});
        explore<WD>(4, shard, nshards, full_a);
        explore<WD>(4, shard, nshards, full_b);
        explore<WD>(3, shard, nshards, both);
        g_family = "W3";
        explore<W3>(4, shard, nshards, {});
        explore<W3>(3, shard, nshards, both);
    }
    for (auto& c : g_cands)
        printf("CAND\t%s\n", c.c_str());
    for (auto& s : g_samples)
        printf("SAMPLE\t%s\n", s.c_str());
    printf(
        "SUMMARY\t{\"sequences\": %ld, \"transitions\": %ld, \"snapshots\": %ld, "
        "\"nontrivial\": %ld}\n",
        g_sequences, g_transitions, g_snapshots, g_nontrivial);
    fflush(stdout);
    _exit(0);
}
