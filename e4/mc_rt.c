/* mc_rt.c - engine E4 `schedx`: an uninstrumented implementation of the
 * ThreadSanitizer instrumentation ABI that turns every instrumented memory
 * access of the harness + yomm2 headers into a potential scheduling point of a
 * controlled, preemption-bounded scheduler, and checks happens-before races
 * with vector clocks. Linked INSTEAD of libtsan (-fsanitize=thread at compile
 * time only). See DESIGN.md 2.3. */
#define _GNU_SOURCE
#include <dlfcn.h>
#include <pthread.h>
#include <semaphore.h>
#include <stdint.h>
#include <stdio.h>
#include <stdlib.h>
#include <string.h>
#include <unistd.h>

#include "mc_rt.h"

#define MAXT MC_MAXT
#define SHADOW_BITS 18
#define SHADOW_SIZE (1u << SHADOW_BITS)
#define CONF_BITS 16
#define CONF_SIZE (1u << CONF_BITS)

typedef struct {
    uint32_t c[MAXT];
} vc_t;

typedef struct {
    uintptr_t addr; /* byte address, 0 = empty */
    uint32_t epoch; /* execution number the entry belongs to */
    int8_t w_tid;
    uint32_t w_clk;
    uint32_t r_clk[MAXT];
    uint8_t readers, writers; /* thread bit masks */
} shadow_t;

typedef struct {
    uintptr_t addr;
    uint32_t epoch;
    vc_t vc;
} sync_t;

static shadow_t g_shadow[SHADOW_SIZE];
static sync_t g_sync[1024];
static uintptr_t g_conf[CONF_SIZE]; /* conflicting byte addresses (persist) */
static long g_nconf;

static volatile int g_active;
static __thread int t_id = -1;
static uint32_t g_epoch = 1;

static int g_nthreads;
static sem_t g_ctl;
static sem_t g_go[MAXT];
static volatile int g_finished[MAXT];
static volatile int g_blocked[MAXT]; /* spinning on a mutex */
static vc_t g_vc[MAXT];
static pthread_t g_pth[MAXT];
static void (*g_body)(int);

static mc_stats_t g_stats;
static mc_point_t g_points[MC_MAXPOINTS];
static int g_npoints;
static const int* g_prefix;
static int g_prefix_len;
static int g_new_conflict;
static int g_all_points; /* self-test: every access is a point */

static mc_race_t g_races[MC_MAXRACES];
static int g_nraces;
static int g_spin_horizon_hit;

/* ------------------------------------------------------------------ */

static inline uint32_t hash_addr(uintptr_t a, unsigned bits) {
    a ^= a >> 33;
    a *= 0xff51afd7ed558ccdull;
    a ^= a >> 29;
    return (uint32_t)(a & ((1u << bits) - 1));
}

static int conf_contains(uintptr_t a) {
    uint32_t h = hash_addr(a, CONF_BITS);
    while (g_conf[h]) {
        if (g_conf[h] == a)
            return 1;
        h = (h + 1) & (CONF_SIZE - 1);
    }
    return 0;
}
static void conf_add(uintptr_t a) {
    uint32_t h = hash_addr(a, CONF_BITS);
    while (g_conf[h]) {
        if (g_conf[h] == a)
            return;
        h = (h + 1) & (CONF_SIZE - 1);
    }
    if (g_nconf < CONF_SIZE / 2) {
        g_conf[h] = a;
        ++g_nconf;
        g_new_conflict = 1;
    }
}

static shadow_t* shadow_of(uintptr_t a) {
    uint32_t h = hash_addr(a, SHADOW_BITS);
    for (unsigned probe = 0; probe < SHADOW_SIZE; ++probe) {
        shadow_t* s = &g_shadow[h];
        if (s->epoch != g_epoch) { /* stale or empty: claim */
            memset(s, 0, sizeof *s);
            s->addr = a;
            s->epoch = g_epoch;
            s->w_tid = -1;
            return s;
        }
        if (s->addr == a)
            return s;
        h = (h + 1) & (SHADOW_SIZE - 1);
    }
    return NULL;
}

static sync_t* sync_of(uintptr_t a) {
    uint32_t h = hash_addr(a, 10);
    for (int probe = 0; probe < 1024; ++probe) {
        sync_t* s = &g_sync[h];
        if (s->epoch != g_epoch) {
            memset(s, 0, sizeof *s);
            s->addr = a;
            s->epoch = g_epoch;
            return s;
        }
        if (s->addr == a)
            return s;
        h = (h + 1) & 1023;
    }
    return &g_sync[0];
}

static void vc_join(vc_t* a, const vc_t* b) {
    for (int i = 0; i < MAXT; ++i)
        if (b->c[i] > a->c[i])
            a->c[i] = b->c[i];
}

static void report_race(uintptr_t addr, int t1, int t2, int w1, int w2) {
    ++g_stats.races;
    for (int i = 0; i < g_nraces; ++i)
        if (g_races[i].addr == addr)
            return;
    if (g_nraces < MC_MAXRACES) {
        g_races[g_nraces].addr = addr;
        g_races[g_nraces].tid1 = t1;
        g_races[g_nraces].tid2 = t2;
        g_races[g_nraces].write1 = w1;
        g_races[g_nraces].write2 = w2;
        ++g_nraces;
    }
}

/* hand the baton back to the controller and wait for our next turn */
static void sched_point(int tid) {
    sem_post(&g_ctl);
    sem_wait(&g_go[tid]);
}

static void on_access(uintptr_t addr, unsigned size, int is_write) {
    int tid = t_id;
    if (!g_active || tid < 0)
        return;
    if (is_write)
        ++g_stats.writes[tid];
    else
        ++g_stats.reads[tid];
    if (size > 64)
        size = 64; /* ranges: the first bytes are enough to order them */
    /* 1. scheduling point, before the access takes effect */
    int point = g_all_points;
    for (unsigned i = 0; i < size && !point; ++i)
        if (conf_contains(addr + i))
            point = 1;
    if (point) {
        ++g_stats.conflict_points;
        sched_point(tid);
    }
    /* 2. happens-before race check, per byte */
    uint32_t my = ++g_vc[tid].c[tid];
    for (unsigned i = 0; i < size; ++i) {
        shadow_t* s = shadow_of(addr + i);
        if (!s)
            return;
        if (is_write) {
            if (s->w_tid >= 0 && s->w_tid != tid && s->w_clk > g_vc[tid].c[s->w_tid])
                report_race(addr + i, s->w_tid, tid, 1, 1);
            for (int t = 0; t < g_nthreads; ++t)
                if (t != tid && s->r_clk[t] > g_vc[tid].c[t])
                    report_race(addr + i, t, tid, 0, 1);
            s->w_tid = (int8_t)tid;
            s->w_clk = my;
            s->writers |= (uint8_t)(1u << tid);
        } else {
            if (s->w_tid >= 0 && s->w_tid != tid && s->w_clk > g_vc[tid].c[s->w_tid])
                report_race(addr + i, s->w_tid, tid, 1, 0);
            s->r_clk[tid] = my;
            s->readers |= (uint8_t)(1u << tid);
        }
        /* conflicting = touched by >= 2 threads, at least one writing */
        uint8_t all = s->readers | s->writers;
        if (s->writers && (all & (all - 1)))
            conf_add(addr + i);
    }
}

static void on_atomic(uintptr_t addr, int order, int is_store, int is_load) {
    int tid = t_id;
    if (!g_active || tid < 0)
        return;
    ++g_stats.atomics[tid];
    sched_point(tid); /* synchronisation operations are always points */
    ++g_vc[tid].c[tid];
    sync_t* s = sync_of(addr);
    int acquire = order == __ATOMIC_ACQUIRE || order == __ATOMIC_ACQ_REL ||
        order == __ATOMIC_SEQ_CST || order == __ATOMIC_CONSUME;
    int release = order == __ATOMIC_RELEASE || order == __ATOMIC_ACQ_REL ||
        order == __ATOMIC_SEQ_CST;
    if (is_load && acquire)
        vc_join(&g_vc[tid], &s->vc);
    if (is_store && release)
        vc_join(&s->vc, &g_vc[tid]);
}

/* memory handed back to the allocator: what a later owner does with it is
 * ordered after this thread's accesses by the allocator itself */
extern void __libc_free(void*);
extern size_t malloc_usable_size(void*);
void free(void* p) {
    if (p && g_active && t_id >= 0) {
        size_t n = malloc_usable_size(p);
        if (n > (1u << 16))
            n = 1u << 16;
        for (size_t i = 0; i < n; ++i) {
            uintptr_t a = (uintptr_t)p + i;
            uint32_t h = hash_addr(a, SHADOW_BITS);
            for (unsigned probe = 0; probe < 64; ++probe) {
                shadow_t* s = &g_shadow[h];
                if (s->epoch != g_epoch)
                    break;
                if (s->addr == a) {
                    s->w_tid = -1;
                    s->w_clk = 0;
                    memset(s->r_clk, 0, sizeof s->r_clk);
                    s->readers = s->writers = 0;
                    break;
                }
                h = (h + 1) & (SHADOW_SIZE - 1);
            }
        }
    }
    __libc_free(p);
}

/* ------------------------------------------------------------------ */
/* plain accesses */

#define RW(n)                                                                  \
    void __tsan_read##n(void* a) {                                            \
        on_access((uintptr_t)a, n, 0);                                         \
    }                                                                          \
    void __tsan_write##n(void* a) {                                           \
        on_access((uintptr_t)a, n, 1);                                         \
    }                                                                          \
    void __tsan_unaligned_read##n(void* a) {                                  \
        on_access((uintptr_t)a, n, 0);                                         \
    }                                                                          \
    void __tsan_unaligned_write##n(void* a) {                                 \
        on_access((uintptr_t)a, n, 1);                                         \
    }                                                                          \
    void __tsan_read##n##_pc(void* a, void* pc) {                             \
        (void)pc;                                                              \
        on_access((uintptr_t)a, n, 0);                                         \
    }                                                                          \
    void __tsan_write##n##_pc(void* a, void* pc) {                            \
        (void)pc;                                                              \
        on_access((uintptr_t)a, n, 1);                                         \
    }
RW(1) RW(2) RW(4) RW(8) RW(16)

void __tsan_read_range(void* a, unsigned long size) {
    on_access((uintptr_t)a, (unsigned)size, 0);
}
void __tsan_write_range(void* a, unsigned long size) {
    on_access((uintptr_t)a, (unsigned)size, 1);
}
void __tsan_read_range_pc(void* a, unsigned long size, void* pc) {
    (void)pc;
    on_access((uintptr_t)a, (unsigned)size, 0);
}
void __tsan_write_range_pc(void* a, unsigned long size, void* pc) {
    (void)pc;
    on_access((uintptr_t)a, (unsigned)size, 1);
}
void __tsan_vptr_read(void** a) {
    on_access((uintptr_t)a, 8, 0);
}
void __tsan_vptr_update(void** a, void* v) {
    (void)v;
    on_access((uintptr_t)a, 8, 1);
}
void __tsan_func_entry(void* pc) {
    (void)pc;
}
void __tsan_func_exit(void) {
}
void __tsan_init(void) {
}
void __tsan_ignore_thread_begin(void) {
}
void __tsan_ignore_thread_end(void) {
}
void* __tsan_memcpy(void* d, const void* s, unsigned long n) {
    on_access((uintptr_t)s, (unsigned)n, 0);
    on_access((uintptr_t)d, (unsigned)n, 1);
    return memcpy(d, s, n);
}
void* __tsan_memset(void* d, int c, unsigned long n) {
    on_access((uintptr_t)d, (unsigned)n, 1);
    return memset(d, c, n);
}
void* __tsan_memmove(void* d, const void* s, unsigned long n) {
    on_access((uintptr_t)s, (unsigned)n, 0);
    on_access((uintptr_t)d, (unsigned)n, 1);
    return memmove(d, s, n);
}

/* ------------------------------------------------------------------ */
/* atomics */

#define ATOMICS(bits, T)                                                       \
    T __tsan_atomic##bits##_load(const volatile T* a, int mo) {               \
        on_atomic((uintptr_t)a, mo, 0, 1);                                     \
        return __atomic_load_n(a, __ATOMIC_SEQ_CST);                           \
    }                                                                          \
    void __tsan_atomic##bits##_store(volatile T* a, T v, int mo) {            \
        on_atomic((uintptr_t)a, mo, 1, 0);                                     \
        __atomic_store_n(a, v, __ATOMIC_SEQ_CST);                              \
    }                                                                          \
    T __tsan_atomic##bits##_exchange(volatile T* a, T v, int mo) {            \
        on_atomic((uintptr_t)a, mo, 1, 1);                                     \
        return __atomic_exchange_n(a, v, __ATOMIC_SEQ_CST);                    \
    }                                                                          \
    T __tsan_atomic##bits##_fetch_add(volatile T* a, T v, int mo) {           \
        on_atomic((uintptr_t)a, mo, 1, 1);                                     \
        return __atomic_fetch_add(a, v, __ATOMIC_SEQ_CST);                     \
    }                                                                          \
    T __tsan_atomic##bits##_fetch_sub(volatile T* a, T v, int mo) {           \
        on_atomic((uintptr_t)a, mo, 1, 1);                                     \
        return __atomic_fetch_sub(a, v, __ATOMIC_SEQ_CST);                     \
    }                                                                          \
    T __tsan_atomic##bits##_fetch_and(volatile T* a, T v, int mo) {           \
        on_atomic((uintptr_t)a, mo, 1, 1);                                     \
        return __atomic_fetch_and(a, v, __ATOMIC_SEQ_CST);                     \
    }                                                                          \
    T __tsan_atomic##bits##_fetch_or(volatile T* a, T v, int mo) {            \
        on_atomic((uintptr_t)a, mo, 1, 1);                                     \
        return __atomic_fetch_or(a, v, __ATOMIC_SEQ_CST);                      \
    }                                                                          \
    T __tsan_atomic##bits##_fetch_xor(volatile T* a, T v, int mo) {           \
        on_atomic((uintptr_t)a, mo, 1, 1);                                     \
        return __atomic_fetch_xor(a, v, __ATOMIC_SEQ_CST);                     \
    }                                                                          \
    int __tsan_atomic##bits##_compare_exchange_strong(                        \
        volatile T* a, T* c, T v, int mo, int fmo) {                           \
        (void)fmo;                                                             \
        on_atomic((uintptr_t)a, mo, 1, 1);                                     \
        return __atomic_compare_exchange_n(                                    \
            a, c, v, 0, __ATOMIC_SEQ_CST, __ATOMIC_SEQ_CST);                   \
    }                                                                          \
    int __tsan_atomic##bits##_compare_exchange_weak(                          \
        volatile T* a, T* c, T v, int mo, int fmo) {                           \
        (void)fmo;                                                             \
        on_atomic((uintptr_t)a, mo, 1, 1);                                     \
        return __atomic_compare_exchange_n(                                    \
            a, c, v, 0, __ATOMIC_SEQ_CST, __ATOMIC_SEQ_CST);                   \
    }                                                                          \
    T __tsan_atomic##bits##_compare_exchange_val(                             \
        volatile T* a, T c, T v, int mo, int fmo) {                            \
        (void)fmo;                                                             \
        on_atomic((uintptr_t)a, mo, 1, 1);                                     \
        __atomic_compare_exchange_n(                                           \
            a, &c, v, 0, __ATOMIC_SEQ_CST, __ATOMIC_SEQ_CST);                  \
        return c;                                                              \
    }
ATOMICS(8, uint8_t)
ATOMICS(16, uint16_t)
ATOMICS(32, uint32_t)
ATOMICS(64, uint64_t)

void __tsan_atomic_thread_fence(int mo) {
    (void)mo;
    if (g_active && t_id >= 0)
        sched_point(t_id);
}
void __tsan_atomic_signal_fence(int mo) {
    (void)mo;
}

/* ------------------------------------------------------------------ */
/* mutexes used by instrumented code: spin through the scheduler */

static int (*real_trylock)(pthread_mutex_t*);
static int (*real_lock)(pthread_mutex_t*);
static int (*real_unlock)(pthread_mutex_t*);

static void resolve_real(void) {
    if (!real_trylock) {
        real_trylock = (int (*)(pthread_mutex_t*))dlsym(RTLD_NEXT, "pthread_mutex_trylock");
        real_lock = (int (*)(pthread_mutex_t*))dlsym(RTLD_NEXT, "pthread_mutex_lock");
        real_unlock = (int (*)(pthread_mutex_t*))dlsym(RTLD_NEXT, "pthread_mutex_unlock");
    }
}

int pthread_mutex_lock(pthread_mutex_t* m) {
    resolve_real();
    int tid = t_id;
    if (!g_active || tid < 0)
        return real_lock(m);
    sched_point(tid);
    int spins = 0;
    while (real_trylock(m) != 0) {
        g_blocked[tid] = 1;
        if (++spins > 10000) {
            g_spin_horizon_hit = 1;
            g_blocked[tid] = 0;
            return real_lock(m); /* let the real deadlock show */
        }
        sched_point(tid);
    }
    g_blocked[tid] = 0;
    ++g_vc[tid].c[tid];
    vc_join(&g_vc[tid], &sync_of((uintptr_t)m)->vc);
    return 0;
}
int pthread_mutex_unlock(pthread_mutex_t* m) {
    resolve_real();
    int tid = t_id;
    if (g_active && tid >= 0) {
        ++g_vc[tid].c[tid];
        vc_join(&sync_of((uintptr_t)m)->vc, &g_vc[tid]);
    }
    return real_unlock(m);
}

/* ------------------------------------------------------------------ */
/* controller */

static void* worker(void* arg) {
    int id = (int)(intptr_t)arg;
    t_id = id;
    sem_wait(&g_go[id]);
    g_body(id);
    g_finished[id] = 1;
    t_id = -1;
    sem_post(&g_ctl);
    return NULL;
}

int mc_execute(int nthreads, void (*body)(int), const int* prefix, int prefix_len) {
    g_nthreads = nthreads;
    g_body = body;
    g_prefix = prefix;
    g_prefix_len = prefix_len;
    g_npoints = 0;
    g_new_conflict = 0;
    ++g_epoch;
    if (g_epoch == 0)
        g_epoch = 1;
    memset((void*)g_finished, 0, sizeof g_finished);
    memset((void*)g_blocked, 0, sizeof g_blocked);
    memset(g_vc, 0, sizeof g_vc);
    sem_init(&g_ctl, 0, 0);
    for (int i = 0; i < nthreads; ++i) {
        sem_init(&g_go[i], 0, 0);
        g_vc[i].c[i] = 1;
        pthread_create(&g_pth[i], NULL, worker, (void*)(intptr_t)i);
    }
    g_active = 1;
    int current = -1;
    int diverged = 0;
    long spin_guard = 0;
    for (;;) {
        int order[MAXT], n = 0;
        if (current >= 0 && !g_finished[current])
            order[n++] = current;
        for (int i = 0; i < nthreads; ++i)
            if (!g_finished[i] && i != current)
                order[n++] = i;
        if (n == 0)
            break;
        int running_enabled = current >= 0 && !g_finished[current] && !g_blocked[current];
        /* a thread spinning on a mutex is only chosen when nothing else can run */
        int choice = 0;
        if (g_npoints < g_prefix_len) {
            choice = g_prefix[g_npoints];
            if (choice >= n) {
                diverged = 1;
                choice = 0;
            }
        } else if (current >= 0 && !g_finished[current] && g_blocked[current] && n > 1)
            choice = 1; /* default: let somebody else release the lock */
        if (g_npoints < MC_MAXPOINTS) {
            mc_point_t* p = &g_points[g_npoints];
            p->n_enabled = n;
            p->chosen = choice;
            p->running_enabled = running_enabled;
            for (int i = 0; i < n; ++i)
                p->order[i] = (int8_t)order[i];
        }
        ++g_npoints;
        if (++spin_guard > 2000000) {
            g_spin_horizon_hit = 1;
            break;
        }
        current = order[choice];
        sem_post(&g_go[current]);
        sem_wait(&g_ctl);
    }
    g_active = 0;
    for (int i = 0; i < nthreads; ++i)
        if (g_finished[i])
            pthread_join(g_pth[i], NULL);
    ++g_stats.executions;
    return diverged ? -1 : g_npoints;
}

const mc_point_t* mc_points(void) {
    return g_points;
}
mc_stats_t* mc_stats(void) {
    return &g_stats;
}
int mc_new_conflict(void) {
    return g_new_conflict;
}
long mc_conflict_bytes(void) {
    return g_nconf;
}
const mc_race_t* mc_races(int* n) {
    *n = g_nraces;
    return g_races;
}
void mc_clear_races(void) {
    g_nraces = 0;
}
void mc_reset_conflicts(void) {
    memset(g_conf, 0, sizeof g_conf);
    g_nconf = 0;
}
void mc_all_points(int on) {
    g_all_points = on;
}
int mc_horizon_hit(void) {
    return g_spin_horizon_hit;
}
