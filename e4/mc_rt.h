/* mc_rt.h - interface between the instrumented harness and the scheduler */
#ifndef MC_RT_H
#define MC_RT_H
#include <stdint.h>
#ifdef __cplusplus
extern "C" {
#endif

#define MC_MAXT 5
#define MC_MAXPOINTS 4096
#define MC_MAXRACES 32

typedef struct {
    int8_t order[MC_MAXT]; /* enabled threads, canonical order: running first */
    int n_enabled;
    int chosen;          /* index into order */
    int running_enabled; /* the thread that ran before this point can continue */
} mc_point_t;

typedef struct {
    long executions;
    long reads[MC_MAXT], writes[MC_MAXT], atomics[MC_MAXT];
    long conflict_points;
    long races;
} mc_stats_t;

typedef struct {
    uintptr_t addr;
    int tid1, tid2, write1, write2;
} mc_race_t;

/* runs `body(tid)` in nthreads controlled threads; follows `prefix` (indexes
 * into the canonical enabled order at each point) then takes choice 0.
 * returns the number of points, or -1 if the prefix could not be followed */
int mc_execute(int nthreads, void (*body)(int), const int* prefix, int prefix_len);
const mc_point_t* mc_points(void);
mc_stats_t* mc_stats(void);
int mc_new_conflict(void);
long mc_conflict_bytes(void);
const mc_race_t* mc_races(int* n);
void mc_clear_races(void);
void mc_reset_conflicts(void);
void mc_all_points(int on);
int mc_horizon_hit(void);

#ifdef __cplusplus
}
#endif
#endif
