// schedx.cpp - engine E4 (C16): harness bodies + preemption-bounded explorer.
// Built twice:
//   (a) -fsanitize=thread at COMPILE time, linked against mc_rt.c instead of
//       libtsan: every memory access of these bodies and of the yomm2 headers is
//       a potential scheduling point (exhaustive exploration, HB race monitor);
//   (b) -DFREE_RUN with the real ThreadSanitizer: same bodies, free running.
#include <yorel/yomm2/core.hpp>

#include <atomic>
#include <cstdio>
#include <cstring>
#include <memory>
#include <string>
#include <thread>
#include <vector>
#include <unistd.h>

#ifndef FREE_RUN
#include "mc_rt.h"
#endif

using namespace yorel::yomm2;

// ---------------------------------------------------------------------------
// shared registry: diamond lattice, unary + binary + virtual_ptr methods

struct A {
    virtual ~A() {
    }
};
struct B : virtual A {};
struct C : virtual A {};
struct D : B, C {};

struct Thrown {
    int status;
};

template<class P>
struct Scene {
    struct k1;
    struct k2;
    struct k3;
    struct k4;
    using M1 = method<k1, int(virtual_<A&>), P>;
    using M2 = method<k2, int(virtual_<A&>, int, virtual_<A&>), P>;
    using M3 = method<k3, int(virtual_ptr<A, P>), P>;
    using M4 = method<k4, int(virtual_ptr<std::shared_ptr<A>, P>), P>;

    static int m1_b(B&) {
        return 1;
    }
    static int m1_c(C&) {
        return 2;
    }
    static int m2_ab(A&, int x, B&) {
        return 10 + x;
    }
    static int m2_bc(B&, int x, C&) {
        return 20 + x;
    }
    static int m2_dd(D&, int x, D&) {
        return 30 + x;
    }
    static int m3_a(virtual_ptr<A, P>) {
        return 40;
    }
    static int m3_b(virtual_ptr<B, P>) {
        return 41;
    }
    static int m3_d(virtual_ptr<D, P>) {
        return 43;
    }
    static int m4_a(virtual_ptr<std::shared_ptr<A>, P>) {
        return 50;
    }
    static int m4_c(virtual_ptr<std::shared_ptr<C>, P>) {
        return 52;
    }

    static inline A a;
    static inline B b;
    static inline C c;
    static inline D d;
    static inline std::shared_ptr<A> shared_c;
    static inline std::optional<virtual_ptr<std::shared_ptr<A>, P>> shared_vp;

    static void setup() {
        static use_classes<A, B, C, D, P> classes;
        static typename M1::template add_function<m1_b> r1;
        static typename M1::template add_function<m1_c> r2;
        static typename M2::template add_function<m2_ab> r3;
        static typename M2::template add_function<m2_bc> r4;
        static typename M2::template add_function<m2_dd> r5;
        static typename M3::template add_function<m3_a> r6;
        static typename M3::template add_function<m3_b> r7;
        static typename M3::template add_function<m3_d> r8;
        static typename M4::template add_function<m4_a> r9;
        static typename M4::template add_function<m4_c> r10;
        P::error = [](const error_type& e) {
            if (auto r = std::get_if<resolution_error>(&e))
                throw Thrown{(int)r->status};
            throw Thrown{-1};
        };
        update<P>();
        shared_c = std::make_shared<C>();
        shared_vp.emplace(shared_c);
    }

    static int safe1(A& x) {
        try {
            return M1::fn(x);
        } catch (Thrown& t) {
            return -t.status;
        }
    }

    // ---- thread bodies: results go to thread-private slots
    static void t1(int* r) {
        r[0] = M1::fn(b);
        r[1] = safe1(d); // ambiguous: B and C definitions
        r[2] = M2::fn(b, 7, c);
        r[3] = safe1(a); // no definition
        r[4] = M2::fn(d, 1, d);
    }
    static void t2(int* r) {
        A& as_a = d;
        virtual_ptr<A, P> p(as_a);
        virtual_ptr<A, P> q(p);
        r[0] = M3::fn(q);
        auto copy = *shared_vp; // atomic reference count
        r[1] = M4::fn(copy);
        virtual_ptr<B, P> pb(b);
        r[2] = M3::fn(pb);
        r[3] = (q.get() == &as_a) ? 1 : 0;
        r[4] = safe1(a); // no definition: the error handler runs in this thread too
        try {
            r[5] = M2::fn(c, 1, a);
        } catch (Thrown& t) {
            r[5] = -t.status;
        }
    }
    static void t3(int* r) {
        auto pf = M1::fn.resolve(c);
        r[0] = pf(c);
        auto fin = virtual_ptr<B, P>::final(b);
        r[1] = M3::fn(fin);
        r[2] = M2::fn(a, 3, b);
        r[3] = M1::fn(c);
        r[4] = safe1(d); // error paths run concurrently with T1's and T2's
        r[5] = safe1(a);
    }
};

// the unrelated policy updated concurrently
struct PB : policy::debug::rebind<PB> {};
struct X0 {
    virtual ~X0() {
    }
};
struct X1 : X0 {};
struct X2 : X0 {};
struct X3 : X1 {};
struct X4 : X1 {};
struct X5 : X2 {};
struct kb;
using MB = method<kb, int(virtual_<X0&>, virtual_<X0&>), PB>;
static int mb_11(X1&, X1&) {
    return 1;
}
static int mb_02(X0&, X2&) {
    return 2;
}
static use_classes<X0, X1, X2, X3, X4, X5, PB> g_b_classes;
static use_classes<A, B, C, D, PB> g_b_shared_classes; // the calling policies' classes too
static MB::add_function<mb_11> g_b1;
static MB::add_function<mb_02> g_b2;
static void update_other_policy(int* r) {
    update<PB>();
    X3 x3;
    X5 x5;
    r[0] = MB::fn(x3, x3);
    r[1] = MB::fn(x3, x5);
}

// a policy whose facets carry a second template argument, and a policy obtained
// from it with rebind, updated concurrently (on its own classes)
struct PMX : policy::basic_policy<
                 PMX, policy::std_rtti,
                 policy::vptr_map<PMX, std::map<type_id, const std::uintptr_t*>>,
                 policy::vectored_error<PMX>> {};
struct PMX2 : PMX::rebind<PMX2> {};
// it registers the SAME classes as the calling policy (sharing class ids)
struct kbx;
using MBX = method<kbx, int(virtual_<A&>, virtual_<A&>), PMX2>;
static int mbx_bb(B&, B&) {
    return 1;
}
static int mbx_ac(A&, C&) {
    return 2;
}
static use_classes<A, B, C, D, PMX2> g_bx_classes;
static MBX::add_function<mbx_bb> g_bx1;
static MBX::add_function<mbx_ac> g_bx2;
static void update_rebound_policy(int* r) {
    update<PMX2>();
    B b;
    C c;
    r[0] = MBX::fn(b, b);
    r[1] = MBX::fn(b, c);
}

struct PA : policy::release::rebind<PA> {};
struct PD : policy::debug::rebind<PD> {};
struct PM : policy::basic_policy<
                PM, policy::std_rtti, policy::vptr_map<PM>,
                policy::vectored_error<PM>> {};
struct PI : policy::basic_policy<
                PI, policy::std_rtti, policy::fast_perfect_hash<PI>,
                policy::vptr_vector<PI>, policy::basic_indirect_vptr<PI>,
                policy::vectored_error<PI>> {};

// ---------------------------------------------------------------------------
// engine self-test body: a deliberate check-then-act cache

static int g_cache_key = -1, g_cache_val = -1;
static int cached_square(int k) {
    if (g_cache_key != k) {
        g_cache_key = k;
        g_cache_val = k * k;
    }
    return g_cache_val;
}
static void selftest_body(int tid, int* r) {
    r[0] = cached_square(tid + 2);
    r[1] = cached_square(tid + 2);
}

// ---------------------------------------------------------------------------

constexpr int NRES = 8;
static int g_results[5][NRES];
static int g_expected[5][NRES];
using body_fn = void (*)(int*);
static body_fn g_bodies[5];
static int g_nbodies;
static bool g_selftest = false;

static void run_body(int tid) {
    try {
        if (g_selftest)
            selftest_body(tid, g_results[tid]);
        else
            g_bodies[tid](g_results[tid]);
    } catch (...) {
        // an exception the sequential run did not have: a wrong answer
        g_results[tid][NRES - 1] = -777;
    }
}

struct Scenario {
    const char* name;
    const char* policy;
    std::vector<int> threads; // 1,2,3 = t1..t3 of the policy, 4 = update<PB>
};

template<class P>
static body_fn body_of(int which) {
    switch (which) {
    case 1:
        return Scene<P>::t1;
    case 2:
        return Scene<P>::t2;
    case 3:
        return Scene<P>::t3;
    case 5:
        return update_rebound_policy;
    default:
        return update_other_policy;
    }
}

template<class P>
static void prepare(const Scenario& sc) {
    static bool done = false;
    if (!done) {
        Scene<P>::setup();
        done = true;
    }
    g_nbodies = (int)sc.threads.size();
    for (int i = 0; i < g_nbodies; ++i)
        g_bodies[i] = body_of<P>(sc.threads[i]);
    // sequential table
    memset(g_expected, 0, sizeof g_expected);
    for (int i = 0; i < g_nbodies; ++i) {
        memset(g_results[i], 0, sizeof g_results[i]);
        g_bodies[i](g_results[i]);
        memcpy(g_expected[i], g_results[i], sizeof g_results[i]);
    }
}

static void prepare_scenario(const Scenario& sc) {
    std::string p = sc.policy;
    if (p == "rel")
        prepare<PA>(sc);
    else if (p == "dbg")
        prepare<PD>(sc);
    else if (p == "map")
        prepare<PM>(sc);
    else if (p == "mx")
        prepare<PMX>(sc);
    else
        prepare<PI>(sc);
}

static std::string results_text(int n) {
    std::string s;
    for (int i = 0; i < n; ++i) {
        s += "T" + std::to_string(i) + "[";
        for (int k = 0; k < NRES; ++k)
            s += std::to_string(g_results[i][k]) + (k + 1 < NRES ? "," : "");
        s += "] ";
    }
    return s;
}

#ifndef FREE_RUN
// ---------------------------------------------------------------------------
// explorer

struct Explorer {
    int nthreads = 0;
    int bound = 0;
    long executions = 0;
    long max_points = 0;
    bool restart = false;
    long budget = 2000000;
    bool budget_hit = false;
    std::vector<std::string> cands;
    std::vector<std::string> outcomes; // distinct final observations
    bool saw_wrong = false, saw_race = false;

    void note_outcome(const std::string& s) {
        for (auto& o : outcomes)
            if (o == s)
                return;
        if (outcomes.size() < 64)
            outcomes.push_back(s);
    }
    std::string prefix_text(const std::vector<int>& p) {
        std::string s;
        for (size_t i = 0; i < p.size(); ++i)
            s += (i ? "," : "") + std::to_string(p[i]);
        return s;
    }

    void explore(const std::vector<int>& prefix) {
        if (restart || budget_hit)
            return;
        if (cands.size() >= 12) { // enough counterexamples for this scenario
            budget_hit = true;
            return;
        }
        if (executions >= budget) {
            budget_hit = true;
            return;
        }
        for (int i = 0; i < nthreads; ++i)
            memset(g_results[i], 0, sizeof g_results[i]);
        mc_clear_races();
        int np = mc_execute(nthreads, run_body, prefix.data(), (int)prefix.size());
        ++executions;
        if (np < 0) {
            cands.push_back("replay divergence\tprefix=" + prefix_text(prefix));
            return;
        }
        if (np > max_points)
            max_points = np;
        std::vector<mc_point_t> pts(mc_points(), mc_points() + std::min(np, MC_MAXPOINTS));
        // oracles
        int nr = 0;
        const mc_race_t* races = mc_races(&nr);
        if (nr) {
            saw_race = true;
            if (cands.size() < 20) {
                char buf[256];
                snprintf(
                    buf, sizeof buf,
                    "data race on address %p between thread %d (%s) and thread %d (%s)",
                    (void*)races[0].addr, races[0].tid1, races[0].write1 ? "write" : "read",
                    races[0].tid2, races[0].write2 ? "write" : "read");
                cands.push_back(std::string(buf) + "\tprefix=" + prefix_text(prefix));
            }
        }
        bool wrong = false;
        for (int i = 0; i < nthreads && !g_selftest; ++i)
            if (memcmp(g_results[i], g_expected[i], sizeof g_results[i]) != 0)
                wrong = true;
        if (g_selftest)
            for (int i = 0; i < nthreads; ++i)
                if (g_results[i][0] != (i + 2) * (i + 2) || g_results[i][1] != (i + 2) * (i + 2))
                    wrong = true;
        note_outcome(results_text(nthreads));
        if (wrong) {
            saw_wrong = true;
            if (cands.size() < 20)
                cands.push_back(
                    "a thread did not get the sequential answer: " + results_text(nthreads) +
                    "\tprefix=" + prefix_text(prefix));
        }
        if (mc_horizon_hit() && cands.size() < 20)
            cands.push_back("deadlock or livelock (spin horizon)\tprefix=" + prefix_text(prefix));
        if (mc_new_conflict()) {
            restart = true; // the set of choice points grew: explore this bound again
            return;
        }
        // alternatives at every point after the prefix
        std::vector<int> chosen(pts.size());
        for (size_t i = 0; i < pts.size(); ++i)
            chosen[i] = pts[i].chosen;
        int cost = 0;
        for (size_t i = 0; i < pts.size(); ++i) {
            const mc_point_t& p = pts[i];
            if (i >= prefix.size()) {
                for (int alt = 0; alt < p.n_enabled; ++alt) {
                    if (alt == p.chosen)
                        continue;
                    int c = cost + ((p.running_enabled && alt != 0) ? 1 : 0);
                    if (c > bound)
                        continue;
                    std::vector<int> next(chosen.begin(), chosen.begin() + i);
                    next.push_back(alt);
                    explore(next);
                    if (restart || budget_hit)
                        return;
                }
            }
            if (p.running_enabled && p.chosen != 0)
                ++cost;
        }
    }
};

static void print_json_escaped(const std::string& s) {
    for (char c : s)
        if (c == '"' || c == '\\')
            printf("\\%c", c);
        else if (c == '\n' || c == '\t')
            printf(" ");
        else
            printf("%c", c);
}

int main(int argc, char** argv) {
    std::string mode = argc > 1 ? argv[1] : "quick";
    std::string only = argc > 2 ? argv[2] : "";
    std::vector<Scenario> scenarios = {
        {"calls12", "rel", {1, 2}},         {"calls13", "rel", {1, 3}},
        {"calls23", "rel", {2, 3}},         {"calls1+update", "rel", {1, 4}},
        {"calls2+update", "rel", {2, 4}},   {"calls12+update", "rel", {1, 2, 4}},
    };
    for (const char* p : {"dbg", "map", "ind"}) {
        scenarios.push_back({"calls12", p, {1, 2}});
        scenarios.push_back({"calls23", p, {2, 3}});
        scenarios.push_back({"calls2+update", p, {2, 4}});
    }
    scenarios.push_back({"calls123", "rel", {1, 2, 3}});
    // 5 = update of a policy obtained by rebind from the calling policy
    scenarios.push_back({"calls1+update-rebound", "mx", {1, 5}});
    scenarios.push_back({"calls2+update-rebound", "mx", {2, 5}});
    if (mode == "thorough") {
        scenarios.push_back({"calls12+update-rebound", "mx", {1, 2, 5}});
        scenarios.push_back({"calls3+update-rebound", "mx", {3, 5}});
        for (const char* p : {"dbg", "map", "ind"}) {
            scenarios.push_back({"calls13", p, {1, 3}});
            scenarios.push_back({"calls12+update", p, {1, 2, 4}});
            scenarios.push_back({"calls123", p, {1, 2, 3}});
        }
        scenarios.push_back({"calls123+update", "rel", {1, 2, 3, 4}});
    }
    int maxbound = mode == "thorough" ? 3 : 2;
    if (only == "list") {
        for (auto& sc : scenarios)
            printf("%s:%s\n", sc.policy, sc.name);
        fflush(stdout);
        _exit(0);
    }
    long total_exec = 0;
    bool any = false;

    // engine self-test: the explorer must find the race and a wrong answer
    {
        g_selftest = true;
        mc_reset_conflicts();
        Explorer ex;
        ex.nthreads = 2;
        bool found_race = false, found_wrong = false;
        for (int bound = 0; bound <= 2; ++bound) {
            do {
                ex.restart = false;
                ex.bound = bound;
                ex.explore({});
            } while (ex.restart);
            found_race |= ex.saw_race;
            found_wrong |= ex.saw_wrong;
        }
        printf(
            "SELFTEST\t{\"race_found\": %d, \"wrong_answer_found\": %d, \"executions\": %ld}\n",
            (int)found_race, (int)found_wrong, ex.executions);
        g_selftest = false;
        if (!found_race || !found_wrong) {
            printf("HARNESS\tself-test failed: the explorer did not find the seeded check-then-act bug\n");
            fflush(stdout);
            _exit(2);
        }
    }

    for (auto& sc : scenarios) {
        std::string full = std::string(sc.policy) + ":" + sc.name;
        if (!only.empty() && only != full)
            continue;
        prepare_scenario(sc);
        mc_reset_conflicts();
        memset(mc_stats(), 0, sizeof(mc_stats_t));
        Explorer ex;
        ex.nthreads = g_nbodies;
        int completed = -1;
        for (int bound = 0; bound <= maxbound; ++bound) {
            int rounds = 0;
            do {
                ex.restart = false;
                ex.bound = bound;
                ex.explore({});
                ++rounds;
            } while (ex.restart && rounds < 50);
            if (ex.budget_hit)
                break;
            completed = bound;
        }
        mc_stats_t* st = mc_stats();
        printf("SCENARIO\t{\"name\": \"%s\", \"threads\": %d, \"bound_completed\": %d, "
               "\"executions\": %ld, \"max_points\": %ld, \"conflict_bytes\": %ld, "
               "\"conflict_points\": %ld, \"races\": %ld, \"distinct_outcomes\": %zu, "
               "\"budget_hit\": %d, \"reads\": [%ld,%ld,%ld], \"writes\": [%ld,%ld,%ld], "
               "\"atomics\": [%ld,%ld,%ld], \"sample_outcome\": \"",
               full.c_str(), g_nbodies, completed, ex.executions, ex.max_points,
               mc_conflict_bytes(), st->conflict_points, st->races, ex.outcomes.size(),
               (int)ex.budget_hit, st->reads[0], st->reads[1], st->reads[2], st->writes[0],
               st->writes[1], st->writes[2], st->atomics[0], st->atomics[1], st->atomics[2]);
        print_json_escaped(ex.outcomes.empty() ? "" : ex.outcomes[0]);
        printf("\"}\n");
        for (auto& c : ex.cands) {
            printf("CAND\t%s bound<=%d\t%s\n", full.c_str(), maxbound, c.c_str());
            any = true;
        }
        total_exec += ex.executions;
    }
    printf("SUMMARY\t{\"executions\": %ld, \"scenarios\": %zu}\n", total_exec, scenarios.size());
    fflush(stdout);
    _exit(!only.empty() && any ? 1 : 0);
}

#else
// ---------------------------------------------------------------------------
// free-running pass under the real ThreadSanitizer

static std::atomic<int> g_barrier{0};

int main(int argc, char** argv) {
    int iterations = argc > 1 ? atoi(argv[1]) : 2000;
    std::vector<Scenario> scenarios = {
        {"all", "rel", {1, 2, 3, 4}}, {"all", "dbg", {1, 2, 3, 4}},
        {"all", "map", {1, 2, 3, 4}}, {"all", "ind", {1, 2, 3, 4}},
        {"all", "mx", {1, 2, 3, 5}},
    };
    long wrong = 0;
    for (auto& sc : scenarios) {
        prepare_scenario(sc);
        for (int it = 0; it < iterations; ++it) {
            g_barrier = 0;
            g_results[0][0] = 0;
            std::vector<std::thread> th;
            for (int i = 0; i < g_nbodies; ++i)
                th.emplace_back([i, n = g_nbodies] {
                    g_barrier.fetch_add(1);
                    while (g_barrier.load() < n) {
                    }
                    int r[NRES] = {};
                    g_bodies[i](r);
                    if (memcmp(r, g_expected[i], sizeof r) != 0)
                        __atomic_fetch_add(&g_results[0][0], 1, __ATOMIC_RELAXED);
                });
            for (auto& t : th)
                t.join();
            wrong += g_results[0][0];
        }
    }
    printf("FREERUN\t{\"iterations\": %d, \"scenarios\": %zu, \"wrong_answers\": %ld}\n",
           iterations, scenarios.size(), wrong);
    return wrong ? 1 : 0;
}
#endif
